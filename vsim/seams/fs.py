"""File-system seam: builtins.open / io.open are replaced by a wrapper that returns
a fault-injecting proxy for every path inside the simulated directory (everything
else passes through untouched).  pathlib, gzip, Pillow, numpy.savetxt, json and
pickle all reach the kernel through these two names.

A fault plan is a per-operation object: it is armed by the machine just before
one menpo call and disarmed when that call returns, so a proxy closed late by the
garbage collector can neither fire nor consume a fault.
"""
import builtins
import errno as _errno
import io
import os


class InjectedOSError(OSError):
    """Marks errors raised by the simulator (still an OSError for the SUT)."""


class FaultPlan(object):
    """faults: list of dicts {kind: open|write|read|close|flush|stat|short_write, nth: int,
    errno: int, keep: int (bytes of the failing write that still reach the file)}

    `stat` fails an os.stat() on a path inside the simulated directory (what Path.exists() rests on).
    `short_write` is not an error: a RAW binary file (opened with buffering=0) accepts only part of what it is given
    and says so in its return value, as a raw write may; buffered files never do that (io.BufferedWriter retries)."""

    def __init__(self, faults=()):
        self.faults = [dict(f) for f in faults]
        self.count = {"open": 0, "write": 0, "read": 0, "close": 0, "flush": 0, "stat": 0, "short_write": 0}
        self.fired = []
        self.armed = True

    def hit(self, kind):
        if not self.armed:
            return None
        n = self.count[kind]
        self.count[kind] = n + 1
        for f in self.faults:
            if f["kind"] == kind and f["nth"] == n and not f.get("done"):
                f["done"] = True
                self.fired.append(f)
                return f
        return None


class ProxyFile(object):
    """Wraps a real file object.  Hides fileno so nobody can bypass the proxy."""

    def __init__(self, seam, real, rel, mode):
        object.__setattr__(self, "_seam", seam)
        object.__setattr__(self, "_real", real)
        object.__setattr__(self, "_rel", rel)
        object.__setattr__(self, "_mode", mode)

    # --- faultable operations
    def write(self, data):
        seam = self._seam
        if self._real.closed:
            raise ValueError("I/O operation on closed file.")
        f = seam.plan.hit("write") if seam.plan else None
        if f is not None:
            keep = data[: max(0, min(len(data), f.get("keep", 0)))]
            if len(keep):
                try:
                    self._real.write(keep)
                    self._real.flush()
                except TypeError:
                    keep = keep[:0]   # wrong payload type for this file: nothing reaches it
            seam.events.append(("write_fault", self._rel, len(keep)))
            raise InjectedOSError(f["errno"], os.strerror(f["errno"]), self._rel)
        if getattr(self, "_raw", False) and seam.plan is not None and len(data) > 1:
            f = seam.plan.hit("short_write")
            if f is not None:
                k = max(1, min(len(data) - 1, f.get("keep", 0) or len(data) // 2))
                self._real.write(data[:k])
                self._real.flush()
                seam.events.append(("short_write", self._rel, k, len(data)))
                seam.bytes_written += k
                return k
        n = self._real.write(data)
        if getattr(self, "_write_through", True):
            # write-through: nothing may sit in a user-space buffer that a late (garbage
            # collected) close would flush at a nondeterministic moment
            self._real.flush()
        seam.bytes_written += len(data)
        return n

    def writelines(self, lines):
        for l in lines:
            self.write(l)

    def read(self, *a):
        seam = self._seam
        f = seam.plan.hit("read") if seam.plan else None
        if f is not None:
            seam.events.append(("read_fault", self._rel))
            raise InjectedOSError(f["errno"], os.strerror(f["errno"]), self._rel)
        return self._real.read(*a)

    def readinto(self, b):
        seam = self._seam
        f = seam.plan.hit("read") if seam.plan else None
        if f is not None:
            seam.events.append(("read_fault", self._rel))
            raise InjectedOSError(f["errno"], os.strerror(f["errno"]), self._rel)
        return self._real.readinto(b)

    def readline(self, *a):
        seam = self._seam
        f = seam.plan.hit("read") if seam.plan else None
        if f is not None:
            seam.events.append(("read_fault", self._rel))
            raise InjectedOSError(f["errno"], os.strerror(f["errno"]), self._rel)
        return self._real.readline(*a)

    def flush(self):
        seam = self._seam
        if self._real.closed:
            return
        f = seam.plan.hit("flush") if seam.plan else None
        if f is not None:
            seam.events.append(("flush_fault", self._rel))
            raise InjectedOSError(f["errno"], os.strerror(f["errno"]), self._rel)
        return self._real.flush()

    def close(self):
        seam = self._seam
        if self._real.closed:
            return
        f = seam.plan.hit("close") if seam.plan else None
        try:
            self._real.close()
        finally:
            seam.events.append(("close", self._rel))
        if f is not None:
            seam.events.append(("close_fault", self._rel))
            raise InjectedOSError(f["errno"], os.strerror(f["errno"]), self._rel)

    # --- plumbing
    def __enter__(self):
        return self

    def __exit__(self, *exc):
        self.close()
        return False

    def __iter__(self):
        return self

    def __next__(self):
        line = self.readline()
        if not line:
            raise StopIteration
        return line

    def readlines(self, *a):
        out = []
        while True:
            l = self.readline()
            if not l:
                break
            out.append(l)
        return out

    def __getattr__(self, name):
        if name in ("fileno", "detach", "raw", "buffer"):
            raise AttributeError(name)
        return getattr(object.__getattribute__(self, "_real"), name)

    def __del__(self):
        # finaliser: never consults the fault plan
        try:
            real = object.__getattribute__(self, "_real")
            if not real.closed:
                real.close()
        except Exception:
            pass


class FsSeam(object):
    def __init__(self, root):
        self.root = os.path.realpath(root)
        self.events = []
        self.plan = None
        self.bytes_written = 0
        self.open_writers = []
        self.zombies = []
        self._orig_open = None
        self._orig_io_open = None
        self._orig_stat = None

    def rel(self, path):
        try:
            p = os.fspath(path)
        except TypeError:
            return None
        if isinstance(p, bytes):
            p = os.fsdecode(p)
        if not isinstance(p, str):
            return None
        ap = os.path.realpath(os.path.join(os.getcwd(), p))
        if ap == self.root or ap.startswith(self.root + os.sep):
            return os.path.relpath(ap, self.root)
        return None

    def _open(self, file, mode="r", *args, **kwargs):
        rel = None if isinstance(file, int) else self.rel(file)
        if rel is None:
            return self._orig_open(file, mode, *args, **kwargs)
        f = self.plan.hit("open") if self.plan else None
        if f is not None:
            self.events.append(("open_fault", rel, mode))
            raise InjectedOSError(f["errno"], os.strerror(f["errno"]), rel)
        real = self._orig_open(file, mode, *args, **kwargs)
        self.events.append(("open", rel, mode))
        px = ProxyFile(self, real, rel, mode)
        buffering = args[0] if args else kwargs.get("buffering", -1)
        if buffering == 0 and "b" in mode:
            object.__setattr__(px, "_raw", True)
            self.events.append(("raw_open", rel, mode))
        if any(c in mode for c in "wa+x"):
            # who opened it?  A handle opened inside a third-party wrapper (gzip) is written through and
            # swept; one opened by the code under test itself keeps its user-space buffer, so that a leak
            # has the consequences it has in reality (see `sweep`).
            import sys as _sys
            fr, third_party = _sys._getframe(1), False
            for _ in range(6):
                if fr is None:
                    break
                fn = fr.f_code.co_filename
                if fn.endswith("gzip.py") or "/PIL/" in fn or "/numpy/" in fn:
                    third_party = True
                    break
                fr = fr.f_back
            object.__setattr__(px, "_write_through", third_party)
            self.open_writers.append(px)
        return px

    def _stat(self, path, *args, **kwargs):
        plan = self.plan
        if plan is not None and plan.armed and any(f["kind"] == "stat" and not f.get("done") for f in plan.faults):
            rel = None if isinstance(path, int) else self.rel(path)
            if rel is not None:
                f = plan.hit("stat")
                if f is not None:
                    self.events.append(("stat_fault", rel))
                    raise InjectedOSError(f["errno"], os.strerror(f["errno"]), rel)
        return self._orig_stat(path, *args, **kwargs)

    def install(self):
        self._orig_open = builtins.open
        self._orig_io_open = io.open
        self._orig_stat = os.stat
        builtins.open = self._open
        io.open = self._open
        os.stat = self._stat

    def uninstall(self):
        if self._orig_open is not None:
            builtins.open = self._orig_open
            io.open = self._orig_io_open
            os.stat = self._orig_stat
            self._orig_open = None

    def sweep(self):
        """End of an operation: close every write handle the operation leaked (e.g.
        gzip.GzipFile leaks its file object when its constructor fails).  The real
        system would close it whenever the garbage collector gets to it; the
        simulator picks the earliest moment so that the choice is deterministic and
        a finaliser can never write into a file that was re-exported meanwhile."""
        n = 0
        for px in self.open_writers:
            real = object.__getattribute__(px, "_real")
            if not real.closed:
                if not object.__getattribute__(px, "_write_through"):
                    # leaked by the code under test itself: it becomes a zombie whose finalisation (the
                    # flush of whatever it still buffers, into whatever the file is by then) is an event
                    # the simulator schedules - see `finalise_zombies`
                    self.zombies.append(px)
                    self.events.append(("leaked", object.__getattribute__(px, "_rel")))
                    continue
                try:
                    real.close()
                except Exception:
                    pass
                self.events.append(("swept", object.__getattribute__(px, "_rel")))
                n += 1
        self.open_writers = []
        return n

    def finalise_zombies(self):
        """The garbage collector gets to the handles the code under test leaked: their stale buffers are
        flushed now.  Returns the paths affected."""
        out = []
        for px in self.zombies:
            real = object.__getattribute__(px, "_real")
            if not real.closed:
                try:
                    real.close()
                except Exception:
                    pass
                out.append(object.__getattribute__(px, "_rel"))
                self.events.append(("zombie_finalised", out[-1]))
        self.zombies = []
        return out

    def arm(self, faults):
        self.plan = FaultPlan(faults)
        return self.plan

    def disarm(self):
        p = self.plan
        if p is not None:
            p.armed = False
        self.plan = None
        return p


ERRNOS = [_errno.ENOSPC, _errno.EIO, _errno.EACCES, _errno.EMFILE]
