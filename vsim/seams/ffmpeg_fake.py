"""In-process fake ffmpeg/ffprobe peer installed as subprocess.Popen.

It parses the command lines menpo builds, answers ffprobe queries and serves raw
rgb24 frames whose every byte encodes (video id, frame number, position).  Its
spawn, its stdout.read and its poll() are fault / schedule points decided by the
simulator:

* spawn failure (OSError) on the next spawn of a video,
* read error (EIO) on the next pipe read,
* kill: the running process dies now (poll() != None, stream cut mid-frame),
* cut: the running process dies unnoticed - the stream ends mid-frame while poll() still says "running" until a
  read has come back short,
* truncated video: ffprobe promises n frames, the stream ends after m < n,
* reap moment: poll() flips from None to 0 at a simulator-drawn call count,
  independently of how much buffered output has been read (a finished ffmpeg
  whose frames are still in the pipe buffer).

Idealised: `-ss k/fps` starts exactly at frame k; short reads only at end of
stream.
"""
import errno
import os
import subprocess

import numpy as np

from ..core import h64


def frame_pixels(vid, k, h, w):
    y, x, c = np.meshgrid(np.arange(h), np.arange(w), np.arange(3), indexing="ij")
    return ((k * 37 + vid * 11 + y * 5 + x * 3 + c * 1) % 256).astype(np.uint8)


class VideoSpec(object):
    def __init__(self, vid, path, n_frames, h, w, fps_num, fps_den, truncated_at=None):
        self.vid, self.path = vid, path
        self.n_frames, self.h, self.w = n_frames, h, w
        self.fps_num, self.fps_den = fps_num, fps_den
        self.truncated_at = truncated_at
        self.spawns = 0
        self.fail_next_spawn = False
        self.fail_next_read = False
        self.current = None

    @property
    def fps(self):
        return float(self.fps_num) / float(self.fps_den)

    @property
    def real_frames(self):
        return self.n_frames if self.truncated_at is None else self.truncated_at


class _Stream(object):
    def __init__(self, proc, data):
        self.proc, self.data, self.pos, self.closed = proc, data, 0, False

    def read(self, n=-1):
        p = self.proc
        if self.closed:
            raise ValueError("I/O operation on closed file")
        spec = p.spec
        if spec is not None and p.kind == "frames" and spec.fail_next_read:
            spec.fail_next_read = False
            p.fake.events.append(("pipe_read_fault", spec.vid))
            p.fake.fired["pipe_read_eio"] += 1
            raise OSError(errno.EIO, "injected pipe read error")
        if n is None or n < 0:
            n = len(self.data) - self.pos
        out = self.data[self.pos:self.pos + n]
        self.pos += len(out)
        if p.kind == "frames":
            p.fake.events.append(("pipe_read", spec.vid, len(out), n))
            if len(out) < n:
                p.fake.fired["short_read_at_eof"] += 1
                if getattr(p, "_cut", False) and p.returncode is None:
                    p.returncode = -9       # only now does the death become visible to poll()
                    p.fake.fired["pipe_ended_mid_frame_before_death_was_noticed"] += 1
        return out

    def readlines(self):
        return self.read().splitlines(True)

    def flush(self):
        pass

    def close(self):
        self.closed = True


class FakeProc(object):
    def __init__(self, fake, kind, spec, stdout=b"", stderr=b"", reap_after=0):
        self.fake, self.kind, self.spec = fake, kind, spec
        self.stdout = _Stream(self, stdout)
        self.stderr = _Stream(self, stderr)
        self.stdin = None
        self.returncode = None
        self._polls = 0
        self._reap_after = reap_after
        self.pid = 4242

    def poll(self):
        if self.returncode is None:
            self._polls += 1
            if self._polls > self._reap_after:
                self.returncode = 0
                if self.kind == "frames":
                    self.fake.events.append(("reaped", self.spec.vid))
                    self.fake.fired["reaped_before_next_read"] += 1
        return self.returncode

    def wait(self, timeout=None):
        if self.returncode is None:
            self.returncode = 0
        return self.returncode

    def kill_now(self):
        """Process dies: stream cut in the middle of the next frame."""
        self.returncode = -9
        s = self.stdout
        fs = self.spec.h * self.spec.w * 3
        s.data = s.data[: s.pos + fs // 2]

    def cut_now(self, frac=0.5):
        """Process dies unnoticed: the pipe ends in the middle of the next frame, but poll() keeps answering None
        until a read has come back short (nobody has reaped the process yet)."""
        s = self.stdout
        fs = self.spec.h * self.spec.w * 3
        if len(s.data) - s.pos > fs:
            s.data = s.data[: s.pos + max(1, min(fs - 1, int(fs * frac)))]
            self._cut = True
            self._reap_after = 10 ** 9

    def communicate(self, *a, **k):
        return self.stdout.read(), self.stderr.read()

    def kill(self):
        self.returncode = -9

    terminate = kill

    def __enter__(self):
        return self

    def __exit__(self, *a):
        self.wait()


class FakeFFmpeg(object):
    def __init__(self, seed=0):
        from collections import Counter
        self.videos = {}   # normalised path -> VideoSpec
        self.events = []
        self.fired = Counter()
        self.seed = seed
        self.exports = []  # (path, n_frames bytes) written by a fake `ffmpeg -y`
        self._orig = None
        self.on_export = None

    def add_video(self, spec):
        self.videos[os.path.realpath(spec.path)] = spec

    def install(self):
        self._orig = subprocess.Popen
        subprocess.Popen = self._popen

    def uninstall(self):
        if self._orig is not None:
            subprocess.Popen = self._orig
            self._orig = None

    def _popen(self, cmd, *args, **kwargs):
        if isinstance(cmd, str):
            cmd = cmd.split()
        cmd = [str(c) for c in cmd]
        exe = os.path.basename(cmd[0])
        if "ffprobe" in exe:
            spec = self.videos.get(os.path.realpath(cmd[-1]))
            if getattr(self, "fail_next_probe", False):
                self.fail_next_probe = False
                self.events.append(("spawn_fault", "ffprobe"))
                self.fired["ffprobe_spawn_failure"] += 1
                raise OSError(errno.EMFILE, "injected spawn failure (ffprobe)")
            self.events.append(("spawn", "ffprobe", None if spec is None else spec.vid))
            if spec is None:
                return FakeProc(self, "probe", None, b"")
            dur = spec.n_frames / spec.fps
            out = ("width=%d\nheight=%d\navg_frame_rate=%d/%d\nduration=%.6f\nnb_read_frames=%d\n"
                   % (spec.w, spec.h, spec.fps_num, spec.fps_den, dur, spec.n_frames)).encode()
            return FakeProc(self, "probe", spec, out)
        if "ffmpeg" in exe:
            if "-y" in cmd or cmd[-1] != "-":
                # exporter: `ffmpeg -y ... out`
                self.events.append(("spawn", "ffmpeg_export", cmd[-1]))
                p = FakeProc(self, "export", None)
                p.stdin = _ExportSink(self, cmd[-1])
                return p
            path = cmd[cmd.index("-i") + 1]
            spec = self.videos.get(os.path.realpath(path))
            if "image2pipe" not in cmd:
                self.events.append(("spawn", "ffmpeg_info", None if spec is None else spec.vid))
                if spec is None:
                    return FakeProc(self, "info", None, b"", b"No such file")
                dur = spec.n_frames / spec.fps
                txt = ("Input #0\n  Duration: %02d:%02d:%05.2f, start: 0.0\n"
                       "    Stream #0:0: Video: h264, yuv420p, %dx%d, 100 kb/s, %g fps, 25 tbr\n"
                       % (int(dur // 3600), int(dur // 60) % 60, dur % 60, spec.w, spec.h,
                          spec.fps))
                return FakeProc(self, "info", spec, b"", txt.encode())
            if spec is None:
                self.events.append(("spawn", "ffmpeg_frames", None, 0))
                return FakeProc(self, "frames", VideoSpec(-1, path, 0, 1, 1, 1, 1), b"")
            start = 0
            if "-ss" in cmd:
                t = float(cmd[cmd.index("-ss") + 1])
                start = int(round(t * spec.fps))
            spec.spawns += 1
            if spec.fail_next_spawn:
                spec.fail_next_spawn = False
                self.events.append(("spawn_fault", spec.vid))
                self.fired["spawn_failure"] += 1
                raise OSError(errno.EMFILE, "injected spawn failure")
            self.events.append(("spawn", "ffmpeg_frames", spec.vid, start))
            data = b"".join(frame_pixels(spec.vid, k, spec.h, spec.w).tobytes()
                            for k in range(start, spec.real_frames))
            # the one real schedule choice: when is the finished process reaped?
            r = h64(self.seed, spec.vid, spec.spawns) % 8
            reap_after = [0, 1, 2, 3, 5, 10 ** 9, 10 ** 9, 10 ** 9][r]
            p = FakeProc(self, "frames", spec, data, reap_after=reap_after)
            spec.current = p
            return p
        self.events.append(("spawn", "unknown", exe))
        raise FileNotFoundError(errno.ENOENT, "No such file or directory", cmd[0])


class _ExportSink(object):
    def __init__(self, fake, path):
        self.fake, self.path, self.buf, self.closed = fake, path, [], False

    def write(self, b):
        self.buf.append(bytes(b))
        return len(b)

    def flush(self):
        pass

    def close(self):
        if not self.closed:
            self.closed = True
            data = b"".join(self.buf)
            # ffmpeg -y overwrites the output path unconditionally
            fd = os.open(self.path, os.O_WRONLY | os.O_CREAT | os.O_TRUNC, 0o644)
            try:
                os.write(fd, b"FAKEVIDEO" + len(data).to_bytes(8, "big"))
            finally:
                os.close(fd)
            self.fake.exports.append((self.path, len(data)))
