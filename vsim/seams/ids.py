"""The identity seam: `id()` as seen by the code under test.

Python only promises that `id(x)` is unique among objects alive at the same time; once an object has died its
number may be handed to the next one.  Whether and when CPython does that depends on the allocator, i.e. on the
whole allocation history of the process - a source of nondeterminism no replay file can carry.  Code that keeps
`id(obj)` in a table that outlives `obj` (a memo keyed by identity) therefore misbehaves "now and then".

The simulator owns that choice: for callers inside the menpo package `id()` returns a small number drawn from a
free list - the lowest number not held by a living object - so a dead object's number is reused at the first
legal opportunity, and identically in every execution of the same block of histories (the table lives as long as
the process, like the tables of the code under test; a block is replayed from a pristine process).  Objects that
cannot be weakly referenced, and all callers outside menpo (the machinery, NumPy, copy.deepcopy, ...), get the
real `id()`.

The promise of the language is kept: two objects alive at the same time never share a number.
"""
import builtins
import heapq
import os
import sys
import weakref

_real_id = builtins.id
_BASE = 1 << 61          # far away from any address
_SEP = os.sep + "menpo" + os.sep


class IdSeam(object):
    def __init__(self):
        self.free = []
        self.next = 0
        self.live = {}       # real id -> (slot, weakref)
        self.reused = 0
        self.calls = 0
        self.installed = False

    def _release(self, rid, slot):
        ent = self.live.get(rid)
        if ent is not None and ent[0] == slot:
            del self.live[rid]
            heapq.heappush(self.free, slot)

    def sim_id(self, obj):
        try:
            fn = sys._getframe(1).f_code.co_filename
        except ValueError:
            return _real_id(obj)
        if _SEP not in fn:
            return _real_id(obj)
        self.calls += 1
        rid = _real_id(obj)
        ent = self.live.get(rid)
        if ent is not None and ent[1]() is obj:
            return _BASE + ent[0]
        if self.free:
            slot, fresh = heapq.heappop(self.free), False
        else:
            slot, fresh = self.next, True
        try:
            ref = weakref.ref(obj, lambda r, rid=rid, slot=slot: self._release(rid, slot))
        except TypeError:
            if fresh:
                pass
            else:
                heapq.heappush(self.free, slot)
            return rid
        if fresh:
            self.next += 1
        else:
            self.reused += 1
        self.live[rid] = (slot, ref)
        return _BASE + slot

    def install(self):
        if not self.installed:
            builtins.id = self.sim_id
            self.installed = True


SEAM = IdSeam()
