"""Batch runner: seeded search over histories on 16 processes, minimisation,
replay files, known findings, evidence.  The only wall-clock reads are here
(evidence timer and batch deadline); machines never see a clock.
"""
import faulthandler
import importlib
import itertools
import json
import multiprocessing
import os
import subprocess
import sys
import time
import traceback
from concurrent.futures import ProcessPoolExecutor

from .core import (Ctx, HarnessError, Violation, execute, h64, ops_digest,
                   rng_for)

VERIF = os.path.dirname(os.path.dirname(os.path.abspath(__file__)))
KNOWN_FILE = os.path.join(VERIF, "known_findings.json")
# development only (mutant runs): write evidence/replays elsewhere
OUT = os.environ.get("VERIF_OUT", VERIF)

MACHINES = {
    "C03": "vsim.machines.compose",
    "C06": "vsim.machines.ownership",
    "C08": "vsim.machines.retarget",
    "C09": "vsim.machines.apply_history",
    "C10": "vsim.machines.pca_bookkeeping",
    "C11": "vsim.machines.increments",
    "C15": "vsim.machines.labels_hashseed",
    "C16": "vsim.machines.io_world",
    "C19": "vsim.machines.lazy_programs",
    "C20": "vsim.machines.rotation_rng",
}


def load_machine(prop):
    mod = importlib.import_module(MACHINES[prop])
    return mod.MACHINE


def load_known(prop):
    """known_findings.json is read-only at run time."""
    try:
        with open(KNOWN_FILE) as f:
            entries = json.load(f)["findings"]
    except FileNotFoundError:
        entries = []
    return [e for e in entries if e["property"] == prop]


def history(machine_cls, tier, verif_seed, index, n_random):
    """History number `index`: random for index < n_random, else from the
    machine's exhaustive enumeration."""
    if index < n_random:
        rng = rng_for(verif_seed, machine_cls.PROPERTY, index)
        return machine_cls.generate(rng, tier)
    raise HarnessError("exhaustive histories are fetched by block")


def _block(job):
    prop, tier, verif_seed, start, end, n_random, known, deadline, want_digests = job
    faulthandler.dump_traceback_later(900, exit=True)
    try:
        machine_cls = load_machine(prop)
        total = Ctx(known)
        viols = []
        kinds = set()
        digests = {}
        done = 0
        samples = []
        if start < n_random:
            gen = ((i, history(machine_cls, tier, verif_seed, i, n_random))
                   for i in range(start, min(end, n_random)))
        else:
            gen = zip(range(start, end), itertools.islice(
                machine_cls.exhaustive(tier), start - n_random, end - n_random))
        for i, (cfg, ops) in gen:
            if deadline is not None and time.monotonic() > deadline:
                break
            viol, ctx = execute(machine_cls, cfg, ops, known)
            done += 1
            total.merge(ctx)
            if ctx.checks > 0:
                kinds.add(h64(machine_cls.history_key(cfg, ops)))
            if i < want_digests:
                digests[i] = (ops_digest(cfg, ops), ctx.outcome_digest())
            if i < start + 1 and len(samples) < 1:
                samples.append({"run": i, "cfg": cfg, "ops": ops[:10],
                                "n_ops": len(ops)})
            if viol is not None and len(viols) < 50:
                viols.append((i, viol.signature, str(viol.detail)[:2000]))
        return {
            "start": start, "done": done, "viols": viols, "kinds": kinds,
            "digests": digests, "samples": samples,
            "probes": dict(total.probes), "faults": dict(total.faults),
            "opkinds": dict(total.opkinds), "states": total.states,
            "known_hits": dict(total.known_hits), "maxerr": total.maxerr,
            "steps": total.steps, "checks": total.checks,
        }
    except BaseException:
        return {"start": start, "harness_error": traceback.format_exc()}
    finally:
        faulthandler.cancel_dump_traceback_later()


def run_blocks(jobs, workers):
    """Every block runs in its own child forked from this (pristine) process, so that
    process-global state of the system under test (module-level caches) can only flow
    from a run to later runs of the same block - a block is one exactly repeatable
    execution.  Returns the block results in job order."""
    import pickle
    import tempfile
    results = [None] * len(jobs)
    active = {}
    nxt = 0
    tmpdir = tempfile.mkdtemp(prefix="vsim-blk-", dir="/dev/shm")
    try:
        while nxt < len(jobs) or active:
            while nxt < len(jobs) and len(active) < workers:
                path = os.path.join(tmpdir, "%d.pkl" % nxt)
                sys.stdout.flush()
                sys.stderr.flush()
                pid = os.fork()
                if pid == 0:
                    code = 0
                    try:
                        r = _block(jobs[nxt])
                        with open(path + ".tmp", "wb") as f:
                            pickle.dump(r, f, protocol=4)
                        os.rename(path + ".tmp", path)
                    except BaseException:
                        code = 3
                    finally:
                        os._exit(code)
                active[pid] = (nxt, path)
                nxt += 1
            pid, status = os.wait()
            if pid not in active:
                continue
            idx, path = active.pop(pid)
            if os.path.exists(path):
                with open(path, "rb") as f:
                    results[idx] = pickle.load(f)
                os.unlink(path)
            else:
                results[idx] = {"start": jobs[idx][3], "harness_error": "worker for block %d died (status %d)" % (idx, status)}
    finally:
        import shutil
        shutil.rmtree(tmpdir, ignore_errors=True)
    return results


class Zygote(object):
    """A child forked from the pristine parent before anything was executed.  Each
    request (prefix histories, cfg, ops) is evaluated in a grandchild forked from it,
    i.e. from pristine process-global state, and answered with the violation signature
    (and detail) of the LAST history."""

    def __init__(self, machine_cls, known):
        import pickle
        self.pickle = pickle
        self.req_r, self.req_w = os.pipe()
        self.ans_r, self.ans_w = os.pipe()
        sys.stdout.flush()
        sys.stderr.flush()
        self.pid = os.fork()
        if self.pid == 0:
            os.close(self.req_w)
            os.close(self.ans_r)
            try:
                self._serve(machine_cls)
            finally:
                os._exit(0)
        os.close(self.req_r)
        os.close(self.ans_w)

    @staticmethod
    def _read(fd, n):
        buf = b""
        while len(buf) < n:
            c = os.read(fd, n - len(buf))
            if not c:
                return None
            buf += c
        return buf

    def _serve(self, machine_cls):
        while True:
            hdr = self._read(self.req_r, 8)
            if hdr is None:
                return
            req = self.pickle.loads(self._read(self.req_r, int.from_bytes(hdr, "big")))
            pid = os.fork()
            if pid == 0:
                ans = (None, "")
                try:
                    prefix, cfg, ops, known = req
                    for pc, po in prefix:
                        try:
                            execute(machine_cls, pc, po, known)
                        except Exception:
                            pass
                    viol, _ = execute(machine_cls, cfg, ops, known)
                    if viol is not None:
                        ans = (viol.signature, str(viol.detail)[:2000])
                except BaseException as e:  # harness exception inside the history
                    ans = ("harness-exception", repr(e))
                data = self.pickle.dumps(ans)
                os.write(self.ans_w, len(data).to_bytes(8, "big") + data)
                os._exit(0)
            os.waitpid(pid, 0)

    def evaluate(self, prefix, cfg, ops, known):
        data = self.pickle.dumps((prefix, cfg, ops, list(known)))
        os.write(self.req_w, len(data).to_bytes(8, "big") + data)
        hdr = self._read(self.ans_r, 8)
        if hdr is None:
            raise HarnessError("zygote died")
        return self.pickle.loads(self._read(self.ans_r, int.from_bytes(hdr, "big")))

    def close(self):
        try:
            os.close(self.req_w)
            os.close(self.ans_r)
            os.waitpid(self.pid, 0)
        except Exception:
            pass


def ddmin_list(items, test, t_end):
    """Generic ddmin over a list (used for the prefix of context histories)."""
    items = list(items)
    n = 2
    while len(items) >= 1 and time.monotonic() < t_end:
        if test([]):
            return []
        chunk = max(1, len(items) // n)
        reduced = False
        for s0 in range(0, len(items), chunk):
            cand = items[:s0] + items[s0 + chunk:]
            if test(cand):
                items = cand
                n = max(n - 1, 2)
                reduced = True
                break
        if not reduced:
            if chunk == 1:
                break
            n = min(n * 2, len(items))
    return items


def _same_sig(machine_cls, cfg, ops, signature, known_without):
    try:
        viol, _ = execute(machine_cls, cfg, ops, known_without)
    except Exception:
        return False
    return viol is not None and viol.signature == signature


def shrink(machine_cls, cfg, ops, signature, known, budget_s=120.0, test=None):
    """ddmin over the operation list, then argument simplification, while the
    same violation signature persists."""
    t_end = time.monotonic() + budget_s
    known = [k for k in known if k != signature]
    if test is None:
        test = lambda o: _same_sig(machine_cls, cfg, o, signature, known)
    ops = list(ops)
    n = 2
    while len(ops) >= 2 and time.monotonic() < t_end:
        chunk = max(1, len(ops) // n)
        reduced = False
        for s in range(0, len(ops), chunk):
            cand = ops[:s] + ops[s + chunk:]
            if cand and test(cand):
                ops = cand
                n = max(n - 1, 2)
                reduced = True
                break
        if not reduced:
            if chunk == 1:
                break
            n = min(n * 2, len(ops))
    # single deletions to a fixpoint
    changed = True
    while changed and time.monotonic() < t_end:
        changed = False
        for i in range(len(ops) - 1, -1, -1):
            cand = ops[:i] + ops[i + 1:]
            if cand and test(cand):
                ops = cand
                changed = True
    # simplify integer arguments toward 0
    for i in range(len(ops)):
        for k in sorted(ops[i]):
            v = ops[i][k]
            if k == "op" or isinstance(v, bool) or not isinstance(v, int) or v == 0:
                continue
            for nv in (0, 1, v // 2):
                if nv == v or time.monotonic() > t_end:
                    continue
                cand = [dict(o) for o in ops]
                cand[i][k] = nv
                if test(cand):
                    ops = cand
                    break
    return ops


def repo_head():
    try:
        return subprocess.run(["git", "-C", "/repo", "rev-parse", "HEAD"],
                              capture_output=True, text=True, timeout=20).stdout.strip()
    except Exception:
        return "unknown"


def write_replay(prop, verif_seed, index, tier, cfg, ops, signature, detail, hashseeds=None, prefix=None):
    d = os.path.join(OUT, "replays", prop)
    os.makedirs(d, exist_ok=True)
    path = os.path.join(d, "%d-%d%s.json" % (verif_seed, index, "-x" if hashseeds else ""))
    rec = {"property": prop, "seed": verif_seed, "run": index, "tier": tier,
           "cfg": cfg, "ops": ops, "expected_signature": signature,
           "detail": detail, "menpo_head": repo_head()}
    if hashseeds:
        rec["hashseeds"] = hashseeds
    if prefix:
        rec["prefix"] = [[c, o] for c, o in prefix]
    with open(path, "w") as f:
        json.dump(rec, f, indent=1)
    return path


def replay_file(path, verbose=True):
    with open(path) as f:
        r = json.load(f)
    machine_cls = load_machine(r["property"])
    if r.get("hashseeds"):
        servers = [DigestServer(r["property"], h) for h in r["hashseeds"]]
        try:
            outs = [sv.run(r["cfg"], r["ops"]) for sv in servers]
        finally:
            for sv in servers:
                sv.close()
        if verbose:
            for op in r["ops"]:
                print("  op", json.dumps(op, sort_keys=True))
            for h, o in zip(r["hashseeds"], outs):
                print("  PYTHONHASHSEED=%s -> outcome digest %s violation %s" % (h, o[0], o[1]))
        if any(o != outs[0] for o in outs[1:]):
            print("REPRODUCED property=%s signature=%s" % (r["property"], r["expected_signature"]))
            return 1
        print("REPLAY: no difference between interpreters (expected %s)" % r["expected_signature"])
        return 0
    for pc, po in r.get("prefix", []):
        try:
            execute(machine_cls, pc, po, ())
        except Exception:
            pass
    if verbose and r.get("prefix"):
        print("  (after %d earlier histories executed in this process)" % len(r["prefix"]))
    viol, ctx = execute(machine_cls, r["cfg"], r["ops"], (), trace=True)
    if verbose:
        for op in r["ops"]:
            print("  op", json.dumps(op, sort_keys=True))
    if viol is None:
        print("REPLAY: no violation (expected %s)" % r["expected_signature"])
        return 0
    print("REPLAY: violation %s" % viol.signature)
    print("  detail: %s" % viol.detail)
    if viol.signature == r["expected_signature"]:
        print("REPRODUCED property=%s signature=%s" % (r["property"], viol.signature))
        return 1
    print("REPLAY: different signature (expected %s)" % r["expected_signature"])
    return 3


def fresh_replay(prop, path):
    """Replay in a fresh interpreter; True iff the signature reproduces."""
    env = dict(os.environ)
    env["PYTHONHASHSEED"] = "0"
    p = subprocess.run([sys.executable, os.path.join(VERIF, "vsim", "cli.py"), prop,
                        "--replay", path], capture_output=True, text=True, env=env,
                       timeout=600)
    return p.returncode == 1 and "REPRODUCED" in p.stdout


CROSS_SIG = "cross_interpreter:outcome_differs_between_hash_seeds"


class DigestServer(object):
    """A fresh interpreter under a given PYTHONHASHSEED that executes histories on
    request and answers with (outcome digest, violation signature)."""

    def __init__(self, prop, hashseed):
        env = dict(os.environ)
        env["PYTHONHASHSEED"] = str(hashseed)
        self.p = subprocess.Popen([sys.executable, os.path.join(VERIF, "vsim", "cli.py"), prop, "--serve"],
                                  stdin=subprocess.PIPE, stdout=subprocess.PIPE, text=True, env=env)

    def run(self, cfg, ops):
        self.p.stdin.write(json.dumps({"cfg": cfg, "ops": ops}) + "\n")
        self.p.stdin.flush()
        while True:
            line = self.p.stdout.readline()
            if not line:
                raise HarnessError("digest server died")
            if line.startswith("ANSWER "):
                a = json.loads(line[7:])
                return a["digest"], a["viol"]

    def close(self):
        try:
            self.p.stdin.close()
            self.p.wait(timeout=20)
        except Exception:
            self.p.kill()


def serve(prop):
    machine_cls = load_machine(prop)
    known = sorted(e["signature"] for e in load_known(prop) if e["status"] == "known")
    for line in sys.stdin:
        line = line.strip()
        if not line:
            continue
        r = json.loads(line)
        try:
            viol, ctx = execute(machine_cls, r["cfg"], r["ops"], known)
            ans = {"digest": ctx.outcome_digest(), "viol": None if viol is None else viol.signature}
        except Exception as e:
            ans = {"digest": "harness-exception %r" % (e,), "viol": None}
        print("ANSWER " + json.dumps(ans), flush=True)
    return 0


def cross_differs(servers, cfg, ops):
    outs = [sv.run(cfg, ops) for sv in servers]
    return any(o != outs[0] for o in outs[1:])


def fresh_digests(prop, tier, verif_seed, n, hashseed, shard=(0, 1), block=None, wall=None):
    env = dict(os.environ)
    env["PYTHONHASHSEED"] = str(hashseed)
    env["VERIF_SEED"] = str(verif_seed)
    p = subprocess.run([sys.executable, os.path.join(VERIF, "vsim", "cli.py"), prop,
                        "--tier", tier, "--digests", str(n), "--shard", "%d/%d" % shard,
                        "--block", str(block or n)] + (["--wall", str(wall)] if wall else []),
                       capture_output=True, text=True, env=env, timeout=(wall + 600) if wall else 3000)
    if p.returncode != 0:
        raise HarnessError("digest subprocess failed: %s" % p.stderr[-2000:])
    line = [l for l in p.stdout.splitlines() if l.startswith("DIGESTS ")][-1]
    return {int(k): tuple(v) for k, v in json.loads(line[8:]).items()}


def compute_digests(machine_cls, tier, verif_seed, n, known, shard=(0, 1), block=None, wall=None):
    """Digests of runs [0, n), executed block by block exactly as the worker pool does
    (each block in a child forked from this pristine interpreter); a shard takes every
    shard[1]-th block.  With `wall`, histories not reached in time are left out (a block
    is cut short, never entered in the middle, so every digest returned is that of a history
    that ran after exactly the same predecessors as in the main phase)."""
    block = block or n
    deadline = (time.monotonic() + wall) if wall else None
    prop = machine_cls.PROPERTY
    starts = list(range(0, n, block))[shard[0]::shard[1]]
    jobs = [(prop, tier, verif_seed, s0, min(s0 + block, n), n, known, deadline, n) for s0 in starts]
    out = {}
    for r in run_blocks(jobs, 1):
        if r is None or "harness_error" in r:
            raise HarnessError("digest block failed: %s" % (r or {}).get("harness_error"))
        out.update(r["digests"])
    return out


def run_check(prop, tier, verif_seed, workers=None, out=sys.stdout):
    t0 = time.monotonic()
    machine_cls = load_machine(prop)
    if hasattr(machine_cls, "run_check"):
        return machine_cls.run_check(tier, verif_seed, out)
    budget = machine_cls.BUDGET[tier]
    n_random = int(os.environ.get("VERIF_RUNS", budget["runs"]))
    n_exh = sum(1 for _ in machine_cls.exhaustive(tier))
    n_total = n_random + n_exh
    wall = float(os.environ.get("VERIF_WALL", budget["wall"]))
    deadline = time.monotonic() + wall
    workers = workers or int(os.environ.get("VERIF_WORKERS", "16"))
    known_entries = load_known(prop)
    known = sorted(e["signature"] for e in known_entries if e["status"] == "known")
    n_dig = min(budget.get("digests", 24), n_random)
    bs = budget.get("block", 100)

    jobs = []
    for s in range(0, n_random, bs):
        jobs.append((prop, tier, verif_seed, s, min(s + bs, n_random), n_random, known,
                     deadline, n_dig))
    for s in range(n_random, n_total, bs):
        jobs.append((prop, tier, verif_seed, s, min(s + bs, n_total), n_random, known,
                     deadline, 0))

    total = Ctx(known)
    viols, kinds, digests, samples = [], set(), {}, []
    done = 0
    harness_errors = []
    zygote = Zygote(machine_cls, known)     # forked before anything is executed here
    for r in run_blocks(jobs, workers):
        if r is None or "harness_error" in r:
            harness_errors.append((r or {}).get("harness_error", "missing block result"))
            continue
        done += r["done"]
        viols.extend(r["viols"])
        kinds |= r["kinds"]
        digests.update(r["digests"])
        if len(samples) < 3:
            samples.extend(r["samples"])
        part = Ctx()
        part.probes.update(r["probes"]); part.faults.update(r["faults"])
        part.opkinds.update(r["opkinds"]); part.states = r["states"]
        part.known_hits.update(r["known_hits"]); part.maxerr = r["maxerr"]
        part.steps = r["steps"]; part.checks = r["checks"]
        total.merge(part)

    exit_code = 0
    lines = []
    if harness_errors:
        exit_code = 2
        lines.append("HARNESS-ERROR property=%s %s" % (prop, harness_errors[0].strip().splitlines()[-1]))
        sys.stderr.write("\n".join(harness_errors[:3]) + "\n")

    # determinism self-test: same seeds again in this process, and in a fresh
    # interpreter under another PYTHONHASHSEED
    determinism = {"runs": 0, "ok": True}
    if exit_code == 0 and n_dig and not os.environ.get("VERIF_NO_SELFTEST"):
        n_self = min(n_dig, 32, bs) if getattr(machine_cls, "CROSS_HASHSEEDS", None) else min(n_dig, bs)
        have = {i: d for i, d in digests.items() if i < n_self}
        again = run_blocks([(prop, tier, verif_seed, 0, n_self, n_random, known, None, n_self)], 1)[0]["digests"]
        # same interpreter hash seed for CROSS machines (other seeds are the property itself)
        fresh = fresh_digests(prop, tier, verif_seed, n_self,
                              0 if getattr(machine_cls, "CROSS_HASHSEEDS", None) else 12345, block=n_self)
        bad = [i for i in have if have[i] != again[i] or have[i] != fresh[i]]
        determinism = {"runs": len(have), "ok": not bad, "in_process_twice": True,
                       "fresh_interpreter_hashseed": 12345}
        if bad:
            exit_code = 2
            i = bad[0]
            lines.append("HARNESS-ERROR property=%s nondeterministic run %d: worker=%s again=%s fresh=%s"
                         % (prop, i, have[i], again[i], fresh[i]))

    # cross-interpreter phase (C15): the same histories under other hash seeds
    cross = {}
    cross_info = {"hashseeds": [], "histories_compared": 0}
    if exit_code == 0 and getattr(machine_cls, "CROSS_HASHSEEDS", None):
        from concurrent.futures import ThreadPoolExecutor
        hss = list(budget["hashseeds"])
        shards = max(1, workers // len(hss))
        cross_wall = float(os.environ.get("VERIF_WALL") or budget.get("cross_wall", budget["wall"]))
        jobs2 = [(h, (sh, shards)) for h in hss for sh in range(shards)]
        with ThreadPoolExecutor(max_workers=len(jobs2)) as tp:
            res = list(tp.map(lambda j: (j[0], fresh_digests(prop, tier, verif_seed, n_dig, j[0], j[1], block=bs, wall=cross_wall)), jobs2))
        compared = 0
        for h, dg in res:
            for i, (od, outd) in dg.items():
                if i not in digests:
                    continue
                compared += 1
                if od != digests[i][0]:
                    exit_code = 2
                    lines.append("HARNESS-ERROR property=%s operation list of run %d differs under PYTHONHASHSEED=%s" % (prop, i, h))
                    break
                if outd != digests[i][1] and i not in cross:
                    cross[i] = h
        cross_info = {"hashseeds": [0] + hss, "histories_compared": compared,
                      "comparisons_planned": len(hss) * len([i for i in digests if i < n_dig]),
                      "wall_budget_seconds": cross_wall,
                      "histories_differing": len(cross)}
        for i in sorted(cross)[:1]:
            viols.append((i, CROSS_SIG, "outcome log differs between PYTHONHASHSEED=0 and PYTHONHASHSEED=%s" % cross[i]))

    # violations: lowest run index per signature, minimised, replayed fresh
    reported = []
    if exit_code == 0 and viols:
        first = {}
        for i, sig, detail in sorted(viols):
            first.setdefault(sig, (i, detail))
        for sig, (i, detail) in sorted(first.items(), key=lambda kv: kv[1][0]):
            if i < n_random:
                cfg, ops = history(machine_cls, tier, verif_seed, i, n_random)
            else:
                cfg, ops = next(itertools.islice(machine_cls.exhaustive(tier),
                                                 i - n_random, None))
            hs = None
            if sig == CROSS_SIG:
                hs = [0, cross[i]]
                servers = [DigestServer(prop, h) for h in hs]
                try:
                    small = shrink(machine_cls, cfg, ops, sig, known,
                                   test=lambda o: cross_differs(servers, cfg, o))
                finally:
                    for sv in servers:
                        sv.close()
                path = write_replay(prop, verif_seed, i, tier, cfg, small, sig, detail, hashseeds=hs)
                if fresh_replay(prop, path):
                    reported.append((sig, path, len(ops), len(small)))
                    lines.append("VIOLATION property=%s replay=%s" % (prop, path))
                    lines.append("  signature=%s run=%d ops=%d->%d detail=%s" % (sig, i, len(ops), len(small), detail[:300]))
                    exit_code = 1
                else:
                    lines.append("HARNESS-ERROR property=%s replay of %s did not reproduce %s" % (prop, path, sig))
                    if exit_code == 0:
                        exit_code = 2
                continue
            kn = [k for k in known if k != sig]
            t_end = time.monotonic() + 150.0
            prefix = []
            got = zygote.evaluate([], cfg, ops, kn)
            if got[0] != sig:
                # not reproducible on its own: the violation needs process-global state left behind
                # by earlier runs of the same block (e.g. a module-level cache in the code under test)
                s0 = (i // bs) * bs if i < n_random else n_random + ((i - n_random) // bs) * bs
                if i < n_random:
                    prefix = [history(machine_cls, tier, verif_seed, j, n_random) for j in range(s0, i)]
                else:
                    prefix = list(itertools.islice(machine_cls.exhaustive(tier), s0 - n_random, i - n_random))
                got = zygote.evaluate(prefix, cfg, ops, kn)
                if got[0] != sig:
                    lines.append("HARNESS-ERROR property=%s run %d: %s is not reproducible even with its block prefix (got %s)"
                                 % (prop, i, sig, got[0]))
                    if exit_code == 0:
                        exit_code = 2
                    continue
                prefix = ddmin_list(prefix, lambda pf: zygote.evaluate(pf, cfg, ops, kn)[0] == sig, t_end)
            small = shrink(machine_cls, cfg, ops, sig, known,
                           test=lambda o: zygote.evaluate(prefix, cfg, o, kn)[0] == sig)
            got = zygote.evaluate(prefix, cfg, small, kn)
            if got[0] == sig:
                detail = got[1]
            if prefix:
                detail = "[needs %d earlier histories in the same process] %s" % (len(prefix), detail)
            path = write_replay(prop, verif_seed, i, tier, cfg, small, sig, detail, prefix=prefix)
            if fresh_replay(prop, path):
                reported.append((sig, path, len(ops), len(small)))
                lines.append("VIOLATION property=%s replay=%s" % (prop, path))
                lines.append("  signature=%s run=%d ops=%d->%d prefix_histories=%d detail=%s"
                             % (sig, i, len(ops), len(small), len(prefix), detail[:300]))
                exit_code = 1
            else:
                lines.append("HARNESS-ERROR property=%s replay of %s did not reproduce %s"
                             % (prop, path, sig))
                if exit_code == 0:
                    exit_code = 2
    zygote.close()

    for e in known_entries:
        if e["status"] == "known":
            lines.append("KNOWN-FINDING: property=%s %s [%s; seen %d times in this run]"
                         % (prop, e["what"], e["signature"],
                            total.known_hits.get(e["signature"], 0)))

    missing = [p for p in machine_cls.REQUIRED_PROBES if total.probes.get(p, 0) == 0]
    if missing and exit_code == 0 and tier == "thorough" and done >= n_total:
        exit_code = 2
        lines.append("HARNESS-ERROR property=%s probes never hit: %s" % (prop, missing))

    wall_s = time.monotonic() - t0
    ev = {
        "property_id": prop, "tier": tier, "seed": verif_seed,
        "level": machine_cls.LEVEL.get(tier, "exploration"),
        "wall_s": round(wall_s, 2),
        "violations": len(reported),
        "coverage": {
            "evaluations": done,
            "distinct_nontrivial": len(kinds),
            "rule": machine_cls.RULE,
            "samples": samples[:3],
            "exhaustive": False,
            "exhaustive_subspace_histories": n_exh,
            "histories_planned": n_total,
            "histories_skipped_by_deadline": n_total - done,
            "steps": total.steps,
            "clause_checks_evaluated": total.checks,
            "runs_per_hour": int(done / max(wall_s, 1e-9) * 3600),
            "seeds": "run i uses sha256('%d/%s/i')[:8], i in [0,%d)" % (verif_seed, prop, n_random),
            "simulated_time": "n/a (menpo has no clock or timers; steps only)",
            "fault_kinds_fired": dict(sorted(total.faults.items())),
            "probes_hit": dict(sorted(total.probes.items())),
            "required_probes_missing": missing,
            "op_kinds": dict(sorted(total.opkinds.items())),
            "distinct_abstract_states": len(total.states),
            "abstract_state_measure": machine_cls.STATE_MEASURE,
            "worst_observed_errors": {k: total.maxerr[k] for k in sorted(total.maxerr)},
            "determinism_selftest": determinism,
            "cross_interpreter": cross_info,
            "known_finding_hits": dict(sorted(total.known_hits.items())),
            "real_components": machine_cls.REAL,
            "stub_components": list(machine_cls.STUB) + ["builtins.id for callers inside the menpo package (identity seam: lowest number not held by a living object; never called by the unchanged tree)"],
            "workers": workers,
        },
        "assumptions": machine_cls.ASSUMPTIONS,
    }
    os.makedirs(os.path.join(OUT, "evidence"), exist_ok=True)
    with open(os.path.join(OUT, "evidence", "%s.json" % prop), "w") as f:
        json.dump(ev, f, indent=1, sort_keys=True)

    for l in lines:
        print(l, file=out)
    print("%s %s tier=%s seed=%d histories=%d/%d steps=%d checks=%d states=%d wall=%.1fs exit=%d"
          % (prop, machine_cls.NAME, tier, verif_seed, done, n_total, total.steps,
             total.checks, len(total.states), wall_s, exit_code), file=out)
    return exit_code
