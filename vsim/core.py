"""Kernel of the deterministic simulator: seeds, violations, per-run context.

One integer decides everything: VERIF_SEED -> run seed (sha256) -> random.Random.
Nothing in here reads a clock or draws from a PRNG on a logging path.
"""
import hashlib
import os
import random
import struct
from collections import Counter

import numpy as np


class Violation(BaseException):
    """A property clause failed on real menpo code.  Deliberately not an Exception
    subclass: a machine's `except Exception` around a menpo call must never swallow
    a verdict."""

    def __init__(self, check, sig, detail=""):
        self.check = check
        self.sig = sig
        self.detail = detail
        BaseException.__init__(self, "%s:%s %s" % (check, sig, detail))

    @property
    def signature(self):
        return "%s:%s" % (self.check, self.sig)


class HarnessError(Exception):
    """A bug in the machinery (never a verdict)."""


def run_seed(verif_seed, prop, index):
    h = hashlib.sha256(("%d/%s/%d" % (verif_seed, prop, index)).encode()).digest()
    return int.from_bytes(h[:8], "big")


def rng_for(verif_seed, prop, index):
    return random.Random(run_seed(verif_seed, prop, index))


def rs(data_seed):
    """Legacy NumPy stream (frozen across NumPy versions) for numeric payloads."""
    return np.random.RandomState(int(data_seed) % (2 ** 32))


def h64(*parts):
    m = hashlib.sha256()
    for p in parts:
        m.update(repr(p).encode())
        m.update(b"\0")
    return int.from_bytes(m.digest()[:8], "big")


def arr_digest(a):
    a = np.ascontiguousarray(a)
    m = hashlib.sha256()
    m.update(str(a.dtype).encode())
    m.update(repr(a.shape).encode())
    m.update(a.tobytes())
    return m.hexdigest()[:16]


class Ctx(object):
    """Per-run (or merged) counters, event log digest and known-finding handling."""

    def __init__(self, known=()):
        self.probes = Counter()
        self.faults = Counter()
        self.opkinds = Counter()
        self.states = set()
        self.known = set(known)
        self.known_hits = Counter()
        self.maxerr = {}
        self.steps = 0
        self.checks = 0
        self._log = hashlib.sha256()
        self.trace = None  # list of strings when tracing is on (replay / samples)

    # --- reach measurement
    def probe(self, name, n=1):
        self.probes[name] += n

    def fault(self, kind, n=1):
        self.faults[kind] += n

    def state(self, *abstract):
        self.states.add(h64(*abstract))

    def err(self, name, value):
        value = float(value)
        if value > self.maxerr.get(name, -1.0):
            self.maxerr[name] = value

    # --- outcome log (digest only; optional text trace)
    def out(self, *parts):
        for p in parts:
            if isinstance(p, np.ndarray):
                s = "A" + arr_digest(p)
            elif isinstance(p, float):
                s = "F" + struct.pack(">d", p).hex()
            else:
                s = repr(p)
            self._log.update(s.encode("utf-8", "backslashreplace"))
            self._log.update(b"|")
            if self.trace is not None:
                self.trace.append(s)
        self._log.update(b"\n")

    def outcome_digest(self):
        return self._log.hexdigest()[:20]

    # --- verdicts
    def ok(self):
        self.checks += 1

    def fail(self, check, sig, detail=""):
        """Raise a Violation unless the signature is a listed known finding, in
        which case it is counted and the run goes on (the caller must be able to
        continue)."""
        signature = "%s:%s" % (check, sig)
        if signature in self.known:
            self.known_hits[signature] += 1
            return
        raise Violation(check, sig, detail)

    def require(self, cond, check, sig, detail=""):
        self.checks += 1
        if not cond:
            self.fail(check, sig, detail() if callable(detail) else detail)

    def merge(self, other):
        self.probes.update(other.probes)
        self.faults.update(other.faults)
        self.opkinds.update(other.opkinds)
        self.states |= other.states
        self.known_hits.update(other.known_hits)
        for k, v in other.maxerr.items():
            if v > self.maxerr.get(k, -1.0):
                self.maxerr[k] = v
        self.steps += other.steps
        self.checks += other.checks


class Machine(object):
    """Base class of a property machine.

    A history is (cfg, ops): both plain JSON.  Operations name their operands by
    small integers taken modulo the current pool size and are no-ops when their
    precondition does not hold, so every subsequence of a history is executable.
    """

    PROPERTY = None
    NAME = None
    # probes that must be hit at least once in a thorough run
    REQUIRED_PROBES = ()

    def __init__(self, cfg, ctx):
        self.cfg = cfg
        self.ctx = ctx

    # generation (depends only on rng + tier, never on SUT state)
    @classmethod
    def swarm(cls, rng, tier):
        raise NotImplementedError

    @classmethod
    def draw(cls, rng, cfg):
        raise NotImplementedError

    @classmethod
    def generate(cls, rng, tier):
        cfg = cls.swarm(rng, tier)
        ops = [cls.draw(rng, cfg) for _ in range(cfg["steps"])]
        return cfg, ops

    @classmethod
    def history_key(cls, cfg, ops):
        """What makes two histories distinct for the evidence count (conservative
        default: configuration kind + sequence of operation kinds)."""
        return (cfg.get("kind"), [o["op"] for o in ops])

    @classmethod
    def exhaustive(cls, tier):
        """Optional finite sub-space, enumerated deterministically."""
        return iter(())

    # execution
    def setup(self):
        pass

    def step(self, op):
        raise NotImplementedError

    def finish(self):
        pass

    def teardown(self):
        pass


def raised_in_sut(ex):
    """True if the exception travelled through a frame of the menpo package (as opposed to one raised by the
    machinery itself, which stays a HARNESS-ERROR)."""
    tb = ex.__traceback__
    sep = os.sep + "menpo" + os.sep
    while tb is not None:
        if sep in tb.tb_frame.f_code.co_filename:
            return True
        tb = tb.tb_next
    return False


def execute(machine_cls, cfg, ops, known=(), trace=False):
    """Run one history against real code.  Returns (violation|None, ctx)."""
    ctx = Ctx(known)
    if trace:
        ctx.trace = []
    from .seams.ids import SEAM
    SEAM.install()          # process-wide and for good: the tables of the code under test outlive a history, too
    reused0 = SEAM.reused
    m = machine_cls(cfg, ctx)
    viol = None
    op = None
    try:
        try:
            m.setup()
            for op in ops:
                ctx.opkinds[op["op"]] += 1
                ctx.steps += 1
                m.step(op)
            op = None
            m.finish()
        except Violation as v:
            viol = v
        except Exception as ex:
            # menpo raised where the machine did not provide for it: on the unchanged tree this never happens (it
            # would be a harness error); on a changed tree it is a verdict, with a replay like any other
            if not raised_in_sut(ex):
                raise
            import traceback
            last = traceback.extract_tb(ex.__traceback__)[-1]
            where = op["op"] if op is not None else "setup_or_finish"
            v = Violation("operation_completes", "menpo_raised_%s_during_%s" % (type(ex).__name__, where),
                          "%r at %s:%d (%s)" % (ex, os.path.basename(last.filename), last.lineno, last.name))
            if v.signature in ctx.known:
                raise
            viol = v
    finally:
        m.teardown()
        if SEAM.reused > reused0:
            ctx.fault("identity_number_of_dead_object_reused", SEAM.reused - reused0)
    return viol, ctx


def ops_digest(cfg, ops):
    import json
    return hashlib.sha256(json.dumps([cfg, ops], sort_keys=True).encode()).hexdigest()[:20]
