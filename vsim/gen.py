"""Seeded generators of menpo objects.  Numeric payloads come from
np.random.RandomState(data_seed) only, so a replay file never stores arrays."""
import math

import numpy as np

from .core import rs

from menpo.shape import (ColouredTriMesh, LabelledPointUndirectedGraph, PointCloud,
                         PointDirectedGraph, PointTree, PointUndirectedGraph,
                         TexturedTriMesh, TriMesh)
from menpo.image import BooleanImage, Image, MaskedImage
from menpo.transform import (Affine, AlignmentAffine, AlignmentRotation,
                             AlignmentSimilarity, AlignmentTranslation,
                             AlignmentUniformScale, Homogeneous, NonUniformScale,
                             PiecewiseAffine, Rotation, Similarity, ThinPlateSplines,
                             Translation, UniformScale)


def general_points(seed, n, d, scale=10.0):
    """n points in general position (jittered lattice; min pairwise distance bounded
    below), O(scale)."""
    g = rs(seed)
    for _attempt in range(500):
        p = g.uniform(-1.0, 1.0, size=(n, d)) * scale
        p += np.arange(n)[:, None] * 0.37 * (scale / max(n, 1)) * np.array([1.0, -0.6, 0.3][:d])
        diff = p[:, None, :] - p[None, :, :]
        dist = np.sqrt((diff ** 2).sum(-1)) + np.eye(n) * 1e9
        c = p - p.mean(0)
        sv = np.linalg.svd(c, compute_uv=False)
        if dist.min() > 0.08 * scale and (n <= d or sv[-1] > 0.15 * scale):
            return p
    raise RuntimeError("general_points(%r, n=%d, d=%d): no configuration in general position found" % (seed, n, d))


def distinct_points(seed, n, d, scale=50.0):
    """n pairwise distinct points (jittered distinct lattice cells); any n."""
    g = rs(seed)
    side = int(np.ceil(n ** (1.0 / d))) + 1
    cells = g.permutation(side ** d)[:n]
    coords = np.stack(np.unravel_index(cells, (side,) * d), 1).astype(float)
    return (coords + g.uniform(-0.3, 0.3, size=coords.shape)) * (scale / side)


def random_rotation(g, d, min_deg=5.0):
    if d == 2:
        a = math.radians(g.uniform(min_deg, 175.0) * (1 if g.rand() < 0.5 else -1))
        return np.array([[math.cos(a), -math.sin(a)], [math.sin(a), math.cos(a)]])
    axis = g.randn(3)
    axis /= np.linalg.norm(axis)
    a = math.radians(g.uniform(min_deg, 175.0))
    K = np.array([[0, -axis[2], axis[1]], [axis[2], 0, -axis[0]], [-axis[1], axis[0], 0]])
    return np.eye(3) * math.cos(a) + math.sin(a) * K + (1 - math.cos(a)) * np.outer(axis, axis)


def well_conditioned_linear(g, d, cond=3.0):
    u = random_rotation(g, d)
    v = random_rotation(g, d)
    s = np.exp(g.uniform(-math.log(cond) / 2, math.log(cond) / 2, size=d))
    if g.rand() < 0.3:
        s[0] = -s[0]
    return u @ np.diag(s) @ v


HOMOG_KINDS = ["Homogeneous", "Affine", "Similarity", "Rotation", "Translation",
               "UniformScale", "NonUniformScale"]


def homog_matrix(kind, seed, d):
    """Reference matrix of a homogeneous-family member, built independently of menpo."""
    g = rs(seed)
    H = np.eye(d + 1)
    if kind == "Homogeneous":
        H[:d, :d] = well_conditioned_linear(g, d)
        H[:d, d] = g.uniform(-3, 3, size=d)
        H[d, :d] = g.uniform(-0.004, 0.004, size=d)  # mild projective row
    elif kind == "Affine":
        H[:d, :d] = well_conditioned_linear(g, d)
        H[:d, d] = g.uniform(-3, 3, size=d)
    elif kind == "Similarity":
        s = math.exp(g.uniform(-0.6, 0.6))
        R = random_rotation(g, d)
        if g.rand() < 0.25:
            R = R.copy()
            R[:, 0] *= -1  # similarities may mirror
        H[:d, :d] = s * R
        H[:d, d] = g.uniform(-3, 3, size=d)
    elif kind == "Rotation":
        H[:d, :d] = random_rotation(g, d)
    elif kind == "Translation":
        H[:d, d] = g.uniform(-3, 3, size=d) + np.where(g.rand(d) < 0.5, 1.0, -1.0)
    elif kind == "UniformScale":
        s = math.exp(g.uniform(0.15, 0.7)) ** (1 if g.rand() < 0.5 else -1)
        if g.rand() < 0.25:
            s = -s          # a point reflection combined with a scaling is a uniform scale, too
        H[:d, :d] = s * np.eye(d)
    elif kind == "NonUniformScale":
        s = np.exp(g.uniform(0.15, 0.7, size=d) * np.where(g.rand(d) < 0.5, 1, -1))
        s[0] *= 1.5
        H[:d, :d] = np.diag(s)
    else:
        raise ValueError(kind)
    return H


def homog_transform(kind, seed, d):
    H = homog_matrix(kind, seed, d)
    if kind == "Homogeneous":
        return Homogeneous(H.copy())
    if kind == "Affine":
        return Affine(H.copy())
    if kind == "Similarity":
        return Similarity(H.copy())
    if kind == "Rotation":
        return Rotation(H[:d, :d].copy())
    if kind == "Translation":
        return Translation(H[:d, d].copy())
    if kind == "UniformScale":
        return UniformScale(float(H[0, 0]), d)
    if kind == "NonUniformScale":
        return NonUniformScale(np.diag(H[:d, :d]).copy())
    raise ValueError(kind)


ALIGN_KINDS = ["AlignmentTranslation", "AlignmentUniformScale", "AlignmentRotation",
               "AlignmentSimilarity", "AlignmentAffine"]


def target_for(kind, seed, src, noise=0.05):
    """A target for `src` (ndarray): a family member applied to src plus noise."""
    g = rs(seed)
    n, d = src.shape
    fam = {"AlignmentTranslation": "Translation", "AlignmentUniformScale": "UniformScale",
           "AlignmentRotation": "Rotation", "AlignmentSimilarity": "Similarity",
           "AlignmentAffine": "Affine"}.get(kind, "Affine")
    H = homog_matrix(fam, g.randint(2 ** 31), d)
    t = src @ H[:d, :d].T + H[:d, d]
    scale = np.abs(src).max()
    t = t + g.randn(n, d) * noise * scale
    return t


def make_alignment(kind, src_pc, tgt_pc, opts):
    if kind == "AlignmentTranslation":
        return AlignmentTranslation(src_pc, tgt_pc)
    if kind == "AlignmentUniformScale":
        return AlignmentUniformScale(src_pc, tgt_pc)
    if kind == "AlignmentRotation":
        return AlignmentRotation(src_pc, tgt_pc, allow_mirror=bool(opts.get("allow_mirror", False)))
    if kind == "AlignmentSimilarity":
        return AlignmentSimilarity(src_pc, tgt_pc, rotation=bool(opts.get("rotation", True)),
                                   allow_mirror=bool(opts.get("allow_mirror", False)))
    if kind == "AlignmentAffine":
        return AlignmentAffine(src_pc, tgt_pc)
    if kind == "ThinPlateSplines":
        from menpo.transform.rbf import R2LogR2RBF, R2LogRRBF
        k = opts.get("kernel")
        kernel = None if k is None else {"R2LogR2RBF": R2LogR2RBF, "R2LogRRBF": R2LogRRBF}[k](src_pc.points)
        return ThinPlateSplines(src_pc, tgt_pc, kernel=kernel, min_singular_val=opts.get("min_singular_val", 1e-4))
    if kind == "PiecewiseAffine":
        return PiecewiseAffine(src_pc, tgt_pc)
    raise ValueError(kind)


# ---------------------------------------------------------------- shapes
SHAPE_KINDS = ["PointCloud", "TriMesh", "ColouredTriMesh", "TexturedTriMesh",
               "PointUndirectedGraph", "PointDirectedGraph", "PointTree",
               "LabelledPointUndirectedGraph"]


def _trilist(g, n):
    m = max(1, n - 2)
    tl = np.array([[i, i + 1, i + 2] for i in range(m)])
    if n >= 4 and g.rand() < 0.5:
        tl = np.vstack([tl, [0, n - 1, n // 2]])
    return tl


def _edges(g, n, tree=False, loops=False, directed=False):
    if tree:
        # breadth-first numbering (non-decreasing parents): menpo's Tree constructor compares
        # scipy's BFS edge order with the CSR order and rejects other numberings of valid trees
        parents = sorted(int(g.randint(0, i)) for i in range(1, n))
        for i in range(1, n):
            parents[i - 1] = min(parents[i - 1], i - 1)
        return np.array([[parents[i - 1], i] for i in range(1, n)])
    e = set()
    for i in range(n - 1):
        if g.rand() < 0.8:
            e.add((i, i + 1))
    for _ in range(int(g.randint(0, n))):
        a, b = sorted(int(v) for v in g.randint(0, n, size=2))
        if a != b or loops:
            e.add((a, b))
    if directed:
        # a directed graph has edges in either direction (from a higher to a lower vertex as well)
        e = {((b, a) if g.rand() < 0.5 else (a, b)) for a, b in sorted(e)}
    return np.array(sorted(e)).reshape(-1, 2)


def make_shape(kind, seed, n, d):
    g = rs(seed ^ 0x5A5A)
    pts = general_points(seed, n, d)
    if kind == "PointCloud":
        return PointCloud(pts)
    if kind == "TriMesh":
        return TriMesh(pts, trilist=_trilist(g, n))
    if kind == "ColouredTriMesh":
        return ColouredTriMesh(pts, trilist=_trilist(g, n), colours=g.rand(n, 3))
    if kind == "TexturedTriMesh":
        tex = Image(g.rand(3, 4, 5))
        return TexturedTriMesh(pts, g.rand(n, 2), tex, trilist=_trilist(g, n))
    if kind == "PointUndirectedGraph":
        return PointUndirectedGraph.init_from_edges(pts, _edges(g, n, loops=bool(seed & 4)))
    if kind == "PointDirectedGraph":
        return PointDirectedGraph.init_from_edges(pts, _edges(g, n, loops=bool(seed & 4), directed=True))
    if kind == "PointTree":
        return PointTree.init_from_edges(pts, _edges(g, n, tree=True), root_vertex=0)
    if kind == "LabelledPointUndirectedGraph":
        from collections import OrderedDict
        k = int(g.randint(1, 4))
        lab = OrderedDict()
        cover = np.zeros(n, dtype=bool)
        for j in range(k):
            m = g.rand(n) < 0.5
            lab["lab%d" % j] = m
            cover |= m
        if not cover.all():
            lab["rest"] = ~cover
        lab2 = OrderedDict((name, m) for name, m in lab.items() if m.any())
        # (init_from_indices_mapping would read a (2, 2) edge array as an adjacency matrix)
        return LabelledPointUndirectedGraph.init_from_edges(pts, _edges(g, n, loops=bool(seed & 4)), lab2)
    raise ValueError(kind)


IMAGE_KINDS = ["Image", "MaskedImage", "BooleanImage"]


def make_image(kind, seed, d=2):
    g = rs(seed ^ 0xA5A5)
    shape = tuple(int(v) for v in g.randint(4, 8, size=d))
    if kind == "Image":
        return Image(g.rand(int(g.randint(1, 4)), *shape))
    if kind == "MaskedImage":
        mask = g.rand(*shape) < 0.7
        mask.flat[0] = True
        return MaskedImage(g.rand(int(g.randint(1, 4)), *shape), mask=mask)
    if kind == "BooleanImage":
        m = g.rand(*shape) < 0.6
        m.flat[0] = True
        return BooleanImage(m)
    raise ValueError(kind)
