"""bin/check entry point (executed as a script so no module is loaded twice)."""
import argparse
import json
import os
import sys
import warnings

HERE = os.path.dirname(os.path.dirname(os.path.abspath(__file__)))
if HERE not in sys.path:
    sys.path.insert(0, HERE)
REPO = os.environ.get("VERIF_REPO", "/repo")  # scratch copies only during development
sys.path[:] = [p for p in sys.path if p != "/repo"]
sys.path.insert(0, REPO)
warnings.simplefilter("ignore")


def main():
    ap = argparse.ArgumentParser()
    ap.add_argument("property")
    ap.add_argument("--tier", default=os.environ.get("VERIF_TIER", "quick"),
                    choices=["quick", "thorough"])
    ap.add_argument("--replay")
    ap.add_argument("--digests", type=int)
    ap.add_argument("--show", type=int, help="print history number N and its trace")
    ap.add_argument("--shard", default="0/1")
    ap.add_argument("--serve", action="store_true")
    ap.add_argument("--block", type=int)
    ap.add_argument("--wall", type=float, help="with --digests: stop after this many seconds (whole prefix of each block kept)")
    a = ap.parse_args()
    seed = int(os.environ.get("VERIF_SEED", "0") or 0)
    from vsim import runner
    from vsim.core import HarnessError
    try:
        if a.replay:
            return runner.replay_file(a.replay)
        if a.serve:
            return runner.serve(a.property)
        if a.digests is not None:
            m = runner.load_machine(a.property)
            known = sorted(e["signature"] for e in runner.load_known(a.property)
                           if e["status"] == "known")
            sh = tuple(int(x) for x in a.shard.split("/"))
            d = runner.compute_digests(m, a.tier, seed, a.digests, known, sh, a.block, wall=a.wall)
            print("DIGESTS " + json.dumps({str(k): v for k, v in d.items()}))
            return 0
        if a.show is not None:
            from vsim.core import execute
            m = runner.load_machine(a.property)
            cfg, ops = runner.history(m, a.tier, seed, a.show, a.show + 1)
            print(json.dumps(cfg, sort_keys=True))
            for o in ops:
                print(json.dumps(o, sort_keys=True))
            v, ctx = execute(m, cfg, ops, (), trace=True)
            print("violation:", v)
            print("probes:", dict(ctx.probes))
            return 0
        return runner.run_check(a.property, a.tier, seed)
    except HarnessError as e:
        print("HARNESS-ERROR property=%s %s" % (a.property, e))
        return 2
    except Exception:
        import traceback
        traceback.print_exc()
        print("HARNESS-ERROR property=%s unexpected exception in the machinery" % a.property)
        return 2


if __name__ == "__main__":
    sys.exit(main())
