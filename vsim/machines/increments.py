"""C11: incremental model updates equal the batch model on the concatenated data.

A history is one way of cutting a sample stream into an initial batch plus
increments; after EVERY increment the incrementally updated model is compared
with the batch model built from the concatenated prefix (the code's own batch
path, which is what the property states), cross-checked for PCA against the
harness' SVD.
"""
import itertools
import warnings

import numpy as np

from ..core import Machine, rs

from menpo.model import GMRFModel, GMRFVectorModel, PCAModel, PCAVectorModel
from menpo.shape import DirectedGraph, PointCloud, Tree, UndirectedGraph

STREAM = 48
FAMILIES = ["pca_vec", "pca_obj", "gmrf_vec", "gmrf_obj"]
GRAPHS = ["edgeless", "chain", "cycle", "random", "tree", "directed", "directed_any", "tree_high_root", "directed_two_way"]


def make_graph(kind, V, g):
    if kind == "edgeless":
        return UndirectedGraph.init_from_edges(np.zeros((0, 2), dtype=int), V)
    if kind == "chain":
        return UndirectedGraph.init_from_edges(np.array([[i, i + 1] for i in range(V - 1)]), V)
    if kind == "cycle":
        return UndirectedGraph.init_from_edges(np.array([[i, (i + 1) % V] for i in range(V)]), V)
    if kind == "random":
        e = {(i, i + 1) for i in range(V - 1) if g.rand() < 0.7}
        for _ in range(V):
            a, b = sorted(int(x) for x in g.randint(0, V, size=2))
            if a != b:
                e.add((a, b))
        if not e:
            e.add((0, 1))
        return UndirectedGraph.init_from_edges(np.array(sorted(e)), V)
    if kind == "tree":
        parents = sorted(int(g.randint(0, i)) for i in range(1, V))
        parents = [min(p, i) for i, p in enumerate(parents)]
        return Tree.init_from_edges(np.array([[parents[i - 1], i] for i in range(1, V)]), V, root_vertex=0)
    if kind == "directed_any":
        # every unordered pair at most once, in either orientation (higher -> lower too): no antiparallel pairs
        e = set()
        for i in range(V):
            for j in range(i + 1, V):
                if g.rand() < 0.5:
                    e.add((i, j) if g.rand() < 0.5 else (j, i))
        if not e:
            e.add((V - 1, 0))
        return DirectedGraph.init_from_edges(np.array(sorted(e)), V)
    if kind == "tree_high_root":
        # a path rooted at the highest vertex: every edge runs from the higher to the lower index
        # (menpo's Tree constructor rejects e.g. a star with >= 4 children rooted there - its BFS-order check)
        return Tree.init_from_edges(np.array([[i + 1, i] for i in range(V - 2, -1, -1)]), V, root_vertex=V - 1)
    if kind == "directed_two_way":
        # a directed graph some of whose vertex pairs are joined in both directions (the oracle is the code's own
        # batch constructor on the same graph, whatever it makes of such a pair)
        e = {(i, j) for i in range(V) for j in range(i + 1, V) if g.rand() < 0.5} or {(0, 1)}
        back = {(j, i) for k_, (i, j) in enumerate(sorted(e)) if k_ == 0 or g.rand() < 0.4}
        return DirectedGraph.init_from_edges(np.array(sorted(e | back)), V)
    if kind == "directed":
        e = {(i, j) for i in range(V) for j in range(i + 1, V) if g.rand() < 0.5}  # i<j only: no antiparallel pairs
        if not e:
            e.add((0, 1))
        return DirectedGraph.init_from_edges(np.array(sorted(e)), V)
    raise ValueError(kind)


def dense(p):
    return np.asarray(p.toarray() if hasattr(p, "toarray") else p, dtype=float)


class Increments(Machine):
    PROPERTY = "C11"
    NAME = "increments"
    BUDGET = {"quick": {"runs": 30000, "wall": 75, "digests": 24, "block": 50},
              "thorough": {"runs": 300000, "wall": 840, "digests": 128, "block": 200}}
    LEVEL = {"quick": "exploration", "thorough": "exploration"}
    RULE = ("a history = initial batch size + sequence of increment sizes over a seeded sample stream, for "
            "PCAVectorModel / PointCloud-backed PCAModel (centred and uncentred, first batch below and above d) "
            "and GMRFVectorModel / GMRFModel (edgeless, chain, cycle, random undirected, tree, directed "
            "graphs; both edge modes; sparse and dense; both bias values); random compositions plus ALL "
            "compositions of n for small n (exhaustive sub-space); non-trivial = at least one increment "
            "compared; distinct = distinct (family, options, composition)")
    STATE_MEASURE = "(family, options, composition of n used so far)"
    REAL = ["menpo.math.decomposition.ipca/pca, PCAVectorModel.increment, PCAModel.increment, GMRFVectorModel/GMRFModel "
            "incl. all _increment_*_precision helpers"]
    STUB = []
    ASSUMPTIONS = ["forgetting_factor = 1", "float64", ">= 2 features per vertex for GMRF; the first GMRF batch "
                   "has enough samples for every edge covariance to be invertible",
                   "no trimming / lowering of active components between increments", "no exactly-zero data mean",
                   "malformed increments (wrong feature count) are only sent to PCA models; a GMRF rebuilds its precision from "
                   "per-edge covariances on every increment and its behaviour after a failed increment is not judged"]
    REQUIRED_PROBES = ("chunk_of_1", "first_batch_below_d_then_crossing", "many_tiny_chunks",
                       "chunk_larger_than_all_before", "pca_centred", "pca_uncentred", "gmrf_sparse", "gmrf_dense",
                       "gmrf_subtraction", "gmrf_concatenation", "gmrf_bias1", "rejected_increment",
                       "graph_edgeless", "graph_chain", "graph_cycle", "graph_tree", "graph_directed", "graph_directed_any",
                       "graph_tree_high_root",
                       "object_backed", "malformed_increment_refused", "active_count_lowered_between_increments",
                       "rank_deficient_with_more_samples_than_features", "one_iterator_feeds_constructor_and_increments",
                       "integer_dtype_samples", "first_batch_of_one_sample_centred", "first_batch_of_one_sample_uncentred",
                       "verbose_increment", "sibling_model_built_from_parts_and_incremented",
                       "direction_with_variance_far_below_the_cut_off", "mean_a_million_times_the_spread")

    @classmethod
    def _cfg(cls, rng):
        fam = rng.choice(FAMILIES)
        cfg = {"family": fam, "seed": rng.getrandbits(32), "scale_exp": rng.choice([-6, -3, 0, 0, 0, 3, 6])}
        if fam.startswith("pca") and rng.random() < 0.12:
            cfg["scale_exp"] = -10      # means of order 1e-10: tiny, but not zero
        if fam.startswith("pca"):
            cfg.update(centred=rng.random() < 0.65, d=rng.randint(2, 10) if fam == "pca_vec" else 2 * rng.randint(2, 5))
            cfg["n0"] = rng.randint(2, 14)
            if rng.random() < 0.08:
                cfg["n0"] = 1       # a model that starts from a single sample
            if fam == "pca_vec" and rng.random() < 0.12:
                cfg["intdata"] = 1  # whole-number data handed over as an integer array
                cfg["scale_exp"] = 0
            if cfg["centred"] and rng.random() < 0.1:
                cfg["far"] = 1      # observations far from the origin compared with their spread (map coordinates, timestamps)
                cfg["scale_exp"] = 0
            if rng.random() < 0.1:
                cfg["flat32"] = 1   # one feature is twice another up to single-precision rounding, in every sample
            if rng.random() < 0.2:
                # a rank-deficient beginning: for the first `flat` samples one feature is an exact multiple of another
                cfg["flat"] = cfg["n0"] + rng.randint(0, 6)
        else:
            V = rng.randint(2, 5)
            k = rng.randint(2, 3) if fam == "gmrf_vec" else 2
            cfg.update(V=V, k=k, graph=rng.choice(GRAPHS), mode=rng.choice(["concatenation", "subtraction"]),
                       sparse=rng.random() < 0.5, bias=rng.choice([0, 0, 1]), incremental=rng.random() < 0.93)
            cfg["n0"] = 2 * k + 3 + rng.randint(0, 6)
        if rng.random() < 0.15:
            cfg["verbose"] = 1      # the progress-reporting option (its output goes nowhere)
        if fam == "pca_vec" and not cfg.get("intdata") and rng.random() < 0.15:
            cfg["surplus"] = 1      # increments come as a list that holds more vectors than n_samples says are to be used
        if fam == "pca_vec" and rng.random() < 0.25:
            cfg["sibling"] = 1      # a second model built from this one's parts is incremented in between
        if fam.endswith("_obj") and rng.random() < 0.3:
            # the caller feeds ONE iterator to the constructor and to every increment, with n_samples= each time
            cfg["stream"] = 1
        return cfg

    @classmethod
    def swarm(cls, rng, tier):
        cfg = cls._cfg(rng)
        cfg["steps"] = rng.randint(1, 8 if tier == "quick" else 16)
        cfg["style"] = rng.choice(["mixed", "mixed", "tiny", "big"])
        return cfg

    @classmethod
    def draw(cls, rng, cfg):
        st = cfg["style"]
        if st == "tiny":
            s = rng.choice([1, 1, 1, 2])
        elif st == "big":
            s = rng.randint(4, 20)
        else:
            s = rng.choice([1, 1, 2, 3, 4, 5, 7, 11])
        if cfg["family"].startswith("pca") and rng.random() < 0.12:
            return {"op": "bad_inc", "size": max(1, s % 4), "extra": rng.choice([1, 2])}
        if cfg["family"].startswith("pca") and rng.random() < 0.12:
            return {"op": "lower_active", "size": rng.randrange(1, 5)}
        return {"op": "inc", "size": s}

    @classmethod
    def history_key(cls, cfg, ops):
        return (sorted((k, str(v)) for k, v in cfg.items() if k not in ("steps", "style", "seed", "kind")),
                [(o["op"], o["size"]) for o in ops])

    @classmethod
    def exhaustive(cls, tier):
        """All compositions: PCA - every composition of n (a first batch of ONE sample included); GMRF - fixed
        first batch, every composition of the remaining m samples."""
        big = tier == "thorough"
        nmax, seeds = (8, 6) if big else (6, 2)
        for seed in range(seeds):
            for centred in (True, False):
                for d in ((3, 6) if big else (4,)):
                    for n in range(3, nmax + 1):
                        for comp in compositions(n):
                            if len(comp) < 2:
                                continue
                            cfg = {"family": "pca_vec", "seed": 900 + seed, "centred": centred, "d": d,
                                   "n0": comp[0], "steps": len(comp) - 1, "style": "exhaustive", "kind": "exhaustive"}
                            yield cfg, [{"op": "inc", "size": s} for s in comp[1:]]
            for graph in (GRAPHS if big else ["chain", "edgeless"]):
                for mode in ("concatenation", "subtraction"):
                    for sparse in (True, False):
                        for m in range(1, (6 if big else 4) + 1):
                            for comp in compositions(m):
                                cfg = {"family": "gmrf_vec", "seed": 700 + seed, "V": 3, "k": 2, "graph": graph,
                                       "mode": mode, "sparse": sparse, "bias": seed % 2, "incremental": True,
                                       "n0": 8, "steps": len(comp), "style": "exhaustive", "kind": "exhaustive"}
                                yield cfg, [{"op": "inc", "size": s} for s in comp]

    # ------------------------------------------------------------------
    def setup(self):
        warnings.simplefilter("ignore")
        cfg, ctx = self.cfg, self.ctx
        g = rs(cfg["seed"])
        fam = cfg["family"]
        self.fam = fam
        self.comp = [cfg["n0"]]
        if fam.startswith("pca"):
            d = cfg["d"]
            # mixing matrix with controlled singular values (condition <= e^2): a random Gaussian matrix can be
            # nearly singular, which puts an eigenvalue right at the decompositions' relative cut-off (1e-10)
            A = (np.linalg.qr(g.randn(d, d))[0] * np.exp(g.uniform(-1.0, 1.0, size=d))) @ np.linalg.qr(g.randn(d, d))[0]
            X = g.randn(STREAM, d) @ A.T
            if cfg["centred"]:
                X = X + g.uniform(2.0, 6.0, size=d) * np.where(g.rand(d) < 0.5, 1, -1)
                ctx.probe("pca_centred")
            else:
                ctx.probe("pca_uncentred")
            X = X * 10.0 ** cfg.get("scale_exp", 0)
            if cfg.get("far") and cfg["centred"] and not cfg.get("intdata"):
                X = X + 2e6 * float(np.abs(X).std()) * np.where(np.arange(d) % 2, 1.0, -0.7)
                ctx.probe("mean_a_million_times_the_spread")
            if cfg.get("intdata"):
                X = np.round(X * 4.0)
                ctx.probe("integer_dtype_samples")
            if cfg.get("far"):
                # (together with a feature that doubles another for the first samples only, the offset would become a
                # jump of millions of spreads in one direction - every other eigenvalue then falls below the relative
                # cut-off, the numerical cliff of 10.8's last item)
                cfg = dict(cfg, flat=0, flat32=0)
            if cfg.get("flat32") and d >= 2 and not cfg.get("intdata"):
                # a direction whose variance is ~1e-15 of the largest: far below the decompositions' 1e-10 cut-off
                # (three and more orders away from it on either side, so which side it falls on is not in question)
                i, j = (int(v) for v in rs(cfg["seed"] ^ 0x32).permutation(d)[:2])
                X[:, j] = (2.0 * X[:, i]).astype(np.float32).astype(np.float64)
                ctx.probe("direction_with_variance_far_below_the_cut_off")
            if cfg.get("flat") and d >= 2:
                i, j = (int(v) for v in g.permutation(d)[:2])
                X[:cfg["flat"], j] = 2.0 * X[:cfg["flat"], i]      # exact in floating point
                ctx.probe("rank_deficient_beginning")
                if cfg["n0"] > d:
                    ctx.probe("rank_deficient_with_more_samples_than_features")
            self.X, self.d = X, d
            self.tmpl = PointCloud(np.zeros((d // 2, 2))) if fam == "pca_obj" else None
            if self.tmpl is not None:
                ctx.probe("object_backed")
            self.pos = cfg["n0"]
            self.below = cfg["n0"] <= d
            self.model = self._pca(X[:self.pos], live=True)
            self._compare_pca()
        else:
            V, k = cfg["V"], cfg["k"]
            d = V * k
            self.graph = make_graph(cfg["graph"], V, g)
            A = (np.linalg.qr(g.randn(d, d))[0] * np.exp(g.uniform(-0.7, 0.7, size=d))) @ np.linalg.qr(g.randn(d, d))[0]
            X = (g.randn(STREAM, d) @ A.T * 3.0 + g.uniform(-5, 5, size=d)) * 10.0 ** cfg.get("scale_exp", 0)
            self.X, self.d = X, d
            self.tmpl = PointCloud(np.zeros((V, 2))) if fam == "gmrf_obj" else None
            if self.tmpl is not None:
                ctx.probe("object_backed")
            self.pos = cfg["n0"]
            ctx.probe("graph_" + cfg["graph"]) if cfg["graph"] != "random" else None
            ctx.probe("gmrf_sparse" if cfg["sparse"] else "gmrf_dense")
            ctx.probe("gmrf_" + cfg["mode"])
            if cfg["bias"]:
                ctx.probe("gmrf_bias1")
            self.model = self._gmrf(X[:self.pos], cfg["incremental"], live=True)
            self._compare_gmrf()

    def _samples(self, rows, live=False):
        if self.tmpl is None:
            if live and self.cfg.get("intdata"):
                return rows.astype(np.int64)       # the same whole numbers, as integers (the oracle gets floats)
            return rows.copy()
        return [self.tmpl.from_vector(r.copy()) for r in rows]

    def _feed(self, rows, live):
        """What the long-lived model is fed with: a list, or (stream style) the shared iterator plus a count."""
        if live and self.cfg.get("stream") and self.tmpl is not None:
            if getattr(self, "stream", None) is None:
                self.stream = (self.tmpl.from_vector(r.copy()) for r in self.X)
            self.ctx.probe("one_iterator_feeds_constructor_and_increments")
            return self.stream, {"n_samples": int(rows.shape[0])}
        return self._samples(rows, live), {}

    def _pca(self, rows, live=False):
        cls_ = PCAVectorModel if self.tmpl is None else PCAModel
        arg, kw = self._feed(rows, live)
        return cls_(arg, centre=self.cfg["centred"], inplace=False, **kw)

    def _gmrf(self, rows, incremental, live=False):
        c = self.cfg
        cls_ = GMRFVectorModel if self.tmpl is None else GMRFModel
        arg, kw = self._feed(rows, live)
        return cls_(arg, self.graph, mode=c["mode"], sparse=c["sparse"], bias=c["bias"],
                    incremental=incremental, **kw)

    def _bad_increment(self, op):
        """A malformed increment in the middle of the history (samples with the wrong number of features), which the
        caller catches: it must be refused and must not disturb the model - checked at once and, above all, by
        the comparison with the batch model after the next genuine increment."""
        ctx = self.ctx
        g = rs(self.cfg["seed"] ^ (self.pos * 31 + op["size"]))
        k = op["size"]
        extra = op["extra"] * (2 if self.tmpl is not None else 1)
        rows = g.randn(k, self.d + extra) * np.abs(self.X).max()
        if self.tmpl is None:
            arg = rows
        else:
            arg = [PointCloud(r.reshape(-1, 2).copy()) for r in rows]
        try:
            self.model.increment(arg)
        except Exception:
            ctx.probe("malformed_increment_refused")
            self._compare_pca()
            return
        ctx.fail("rejects", "malformed_increment_accepted", "increment() with %d features per sample on a %d-feature model did not raise" % (self.d + extra, self.d))

    def step(self, op):
        ctx = self.ctx
        if op["op"] == "lower_active":
            # de-activating components (NOT trimming) discards nothing: later increments must still equal the batch
            if self.fam.startswith("pca"):
                try:
                    k = int(self.model.n_components)
                    if k < 1:
                        return      # a model of one sample has no component to de-activate
                    self.low = max(1, k - op["size"])
                    self.model.n_active_components = self.low
                    ctx.probe("active_count_lowered_between_increments")
                except Exception as ex:
                    ctx.fail("increment", "lowering_active_components_raised", repr(ex))
            return
        if op["op"] == "bad_inc":
            if self.fam.startswith("pca"):
                self._bad_increment(op)
            return
        s = op["size"]
        if s < 1 or self.pos + s > STREAM:
            return
        chunk = self.X[self.pos:self.pos + s]
        arg = self._samples(chunk, live=True)
        snap = chunk.copy()
        if self.fam.startswith("gmrf") and not self.cfg["incremental"]:
            try:
                self.model.increment(arg)
                ctx.fail("rejects", "non_incremental_model_accepted_increment", "increment() on a model built with incremental=False did not raise")
            except Exception:
                ctx.probe("rejected_increment")
                ctx.ok()
            return
        streamed = bool(self.cfg.get("stream")) and self.tmpl is not None
        if self.cfg.get("sibling") and self.fam == "pca_vec" and int(self.model.n_components) >= 1:
            # the documented way to build a model from parts: the parts are the first model's own arrays; what happens
            # to the second model afterwards is its own business
            try:
                m_ = self.model
                sib = PCAVectorModel.init_from_components(m_.components, m_.eigenvalues, m_.mean(), int(m_.n_samples), self.cfg["centred"])
                sib.increment(self.X[STREAM - s - 1:STREAM - 1].copy() * 1.5 + 0.25)
                self.ctx.probe("sibling_model_built_from_parts_and_incremented")
            except Exception as ex:
                ctx.fail("increment", "sibling_model_raised", repr(ex))
                return
        import contextlib as _cl
        import io as _io
        kwv = {"verbose": True} if self.cfg.get("verbose") else {}
        if kwv:
            self.ctx.probe("verbose_increment")
        try:
            with _cl.redirect_stdout(_io.StringIO()):
                if streamed:
                    feed, kw = self._feed(chunk, True)
                    self.model.increment(feed, **dict(kw, **kwv))
                elif self.cfg.get("surplus") and self.fam == "pca_vec" and self.tmpl is None:
                    # a list that goes on after the n_samples items that are to be used ("slice of the number of
                    # requested samples", _data_to_matrix): the surplus is not part of the data
                    extra = [self.X[(self.pos + s + j) % STREAM] * 3.0 + 1.0 for j in range(2)]
                    self.model.increment([r.copy() for r in arg] + extra, n_samples=s, **kwv)
                    self.ctx.probe("list_longer_than_n_samples")
                else:
                    self.model.increment(arg, **kwv)
        except Exception as ex:
            ctx.fail("increment", "increment_raised_" + self.fam, "composition %r + %d: %r" % (self.comp, s, ex))
            return
        got = np.vstack([a.as_vector() for a in arg]) if self.tmpl is not None else arg
        ctx.require(np.array_equal(got, snap), "inputs_intact", "increment_modified_its_argument")
        before = sum(self.comp)
        if s == 1:
            ctx.probe("chunk_of_1")
        if s > before:
            ctx.probe("chunk_larger_than_all_before")
        if self.fam.startswith("pca") and self.below and before <= self.d < before + s:
            ctx.probe("first_batch_below_d_then_crossing")
        self.comp.append(s)
        if len(self.comp) >= 5 and max(self.comp[1:]) <= 2:
            ctx.probe("many_tiny_chunks")
        self.pos += s
        if self.fam.startswith("pca"):
            self._compare_pca()
        else:
            self._compare_gmrf()
        c = self.cfg
        ctx.state(self.fam, tuple(sorted((k, str(v)) for k, v in c.items() if k not in ("steps", "style", "seed", "kind"))), tuple(self.comp))

    def _compare_pca(self):
        ctx = self.ctx
        m = self.model
        low = getattr(self, "low", None)
        if low is not None and int(m.n_components) < 1:
            low = None
        if low is not None:
            try:
                m.n_active_components = int(m.n_components)     # look at everything the model kept
            except Exception as ex:
                ctx.fail("increment", "reactivating_components_raised", repr(ex))
                return
        try:
            self._compare_pca_all_active()
        finally:
            if low is not None:
                try:
                    m.n_active_components = max(1, min(low, int(m.n_components)))
                except Exception:
                    pass

    def _compare_pca_all_active(self):
        ctx = self.ctx
        m = self.model
        rows = self.X[:self.pos]
        b = self._pca(rows)
        n = rows.shape[0]
        tag = "centred" if self.cfg["centred"] else "uncentred"
        ctx.require(int(m.n_samples) == n, "incremental_equals_batch", "pca_n_samples",
                    lambda: "n_samples %r after composition %r (expected %d)" % (m.n_samples, self.comp, n))
        vec = (lambda o: np.asarray(o if self.tmpl is None else o.as_vector(), float).ravel())
        mu, mub = vec(m.mean()), vec(b.mean())
        err = float(np.abs(mu - mub).max() / np.abs(self.X).max())
        ctx.err("pca_mean", err)
        ctx.require(err < 1e-9, "incremental_equals_batch", "pca_mean_" + tag,
                    lambda: "mean differs by %.3g after composition %r" % (err, self.comp))
        lb = np.asarray(b.eigenvalues, float)
        li = np.asarray(m.eigenvalues, float)
        if n == 1 or len(lb) == 0:
            # one sample: nothing varies yet (menpo's divisor n - 1 is 0); both models are empty
            ctx.require(len(li) == len(lb) == 0 or (len(li) == len(lb) and np.allclose(li, lb)), "incremental_equals_batch", "pca_single_sample_" + tag,
                        lambda: "eigenvalues %r vs batch %r" % (li.tolist(), lb.tolist()))
            ctx.probe("model_of_a_single_sample")
            return
        if self.comp[0] == 1:
            ctx.probe("first_batch_of_one_sample_" + tag)
            if not self.cfg["centred"] and not (len(li) == len(lb) and np.abs(li - lb).max() <= 1e-8 * lb[0]):
                # known finding: an un-centred model of one sample has no component and no mean, i.e. no trace of
                # its sample; the increments then give exactly the model of the OTHER samples (divisor still n - 1)
                R = rows[1:]
                l2 = np.linalg.svd(R, compute_uv=False) ** 2 / (n - 1)
                l2 = l2[l2 > 1e-10 * l2[0]]
                if len(li) == len(l2) and np.abs(li - l2).max() <= 1e-8 * l2[0]:
                    ctx.fail("incremental_equals_batch", "pca_uncentred_first_batch_of_one_sample_is_forgotten",
                             "composition %r: eigenvalues %r are those of samples 2..n alone (all samples: %r)" % (self.comp, li.tolist(), lb.tolist()))
                    return
        # cross-check the batch oracle with the harness' own SVD
        Xc = rows - rows.mean(0) if self.cfg["centred"] else rows
        sv = np.linalg.svd(Xc, compute_uv=False) ** 2 / (n - 1)
        nb = int((lb > 1e-7 * lb[0]).sum())
        ctx.require(len(sv) >= nb and float(np.abs(sv[:nb] - lb[:nb]).max()) <= 1e-9 * sv[0], "batch_oracle", "batch_pca_differs_from_svd",
                    lambda: "batch eigenvalues %r svd %r" % (lb.tolist(), sv.tolist()))
        # components whose eigenvalue is below 1e-7 of the largest are numerically negligible: whether a
        # decomposition keeps them depends on which side of its 1e-10 cut-off rounding puts them
        r = int((lb > 1e-7 * lb[0]).sum())
        lb = lb[:r]
        ctx.require(len(li) >= r, "incremental_equals_batch", "pca_too_few_eigenvalues_" + tag,
                    lambda: "incremental model has %d eigenvalues, batch has %d (composition %r)" % (len(li), r, self.comp))
        if len(li) < r:
            return
        err = float(np.abs(li[:r] - lb).max() / lb[0])
        ctx.err("pca_eigenvalues", err)
        ctx.require(err < 1e-8, "incremental_equals_batch", "pca_eigenvalues_" + tag,
                    lambda: "eigenvalues differ by %.3g (relative to the largest) after composition %r:\n inc %r\n batch %r" % (err, self.comp, li[:r].tolist(), lb.tolist()))
        if len(li) > r:
            ctx.require(float(li[r:].max()) <= 2e-7 * lb[0], "incremental_equals_batch", "pca_surplus_eigenvalues_" + tag,
                        lambda: "surplus eigenvalues %r" % li[r:].tolist())
            # the band around the 1e-10 cut-off is not judged; an eigenvalue three orders BELOW it is unambiguous: the
            # batch model does not have it
            ctx.require(float(li[r:].min()) >= 1e-13 * lb[0], "incremental_equals_batch", "pca_kept_eigenvalue_far_below_cut_off_" + tag,
                        lambda: "the incremental model keeps eigenvalues %r (largest %r), the batch model stops at %r" % (li[r:].tolist(), float(lb[0]), lb.tolist()))
        ci = np.asarray(m.components, float)
        cb = np.asarray(b.components, float)
        cb = cb[:r]
        ctx.require(ci.shape[0] == len(li) and int(m.n_active_components) == int(m.n_components) == len(li),
                    "incremental_equals_batch", "pca_counts_" + tag,
                    lambda: "components %r eigenvalues %d n_active %r n_components %r" % (ci.shape, len(li), m.n_active_components, m.n_components))
        # principal subspaces: projector onto the top-j components wherever the spectrum has a clear gap
        for j in range(1, r + 1):
            gap = (lb[j - 1] - (lb[j] if j < r else 0.0)) / lb[0]
            if gap < 0.05:
                continue
            Pi = ci[:j].T @ ci[:j]
            Pb = cb[:j].T @ cb[:j]
            err = float(np.abs(Pi - Pb).max())
            ctx.err("pca_subspace", err)
            ctx.require(err < 1e-6, "incremental_equals_batch", "pca_subspace_" + tag,
                        lambda: "top-%d principal subspace differs by %.3g after composition %r" % (j, err, self.comp))
        ctx.out("pca", tuple(self.comp), li[:r])

    def _compare_gmrf(self):
        ctx = self.ctx
        m = self.model
        rows = self.X[:self.pos]
        b = self._gmrf(rows, False)
        c = self.cfg
        tag = "%s_%s_%s" % (c["graph"], c["mode"], "sparse" if c["sparse"] else "dense")
        ctx.require(int(m.n_samples) == rows.shape[0], "incremental_equals_batch", "gmrf_n_samples",
                    lambda: "n_samples %r expected %d" % (m.n_samples, rows.shape[0]))
        vec = (lambda o: np.asarray(o if self.tmpl is None else o.as_vector(), float).ravel())
        mu, mub = vec(m.mean()), vec(b.mean())
        err = float(np.abs(mu - mub).max() / np.abs(self.X).max())
        ctx.err("gmrf_mean", err)
        ctx.require(err < 1e-9, "incremental_equals_batch", "gmrf_mean",
                    lambda: "mean differs by %.3g after composition %r" % (err, self.comp))
        P, Pb = dense(m.precision), dense(b.precision)
        ok = P.shape == Pb.shape
        err = float("inf")
        if ok:
            err = float(np.abs(P - Pb).max() / max(1e-12, np.abs(Pb).max()))
            ctx.err("gmrf_precision", err)
            ok = err < 1e-7
        ctx.require(ok, "incremental_equals_batch", "gmrf_precision_" + tag,
                    lambda: "precision differs by %.3g (relative) after composition %r (bias=%r)" % (err, self.comp, c["bias"]))
        ctx.out("gmrf", tuple(self.comp), P)


def compositions(n):
    for bits in itertools.product((0, 1), repeat=n - 1):
        comp, cur = [], 1
        for b in bits:
            if b:
                comp.append(cur)
                cur = 1
            else:
                cur += 1
        comp.append(cur)
        yield comp


MACHINE = Increments
