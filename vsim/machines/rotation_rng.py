"""C20 (first sentence): rotation conventions under the global-RNG seam.

The only nondeterminism behind this property is the helper vector that
Rotation.axis_and_angle_of_rotation draws from NumPy's *global* RNG.  The
simulator owns that RNG: it is seeded from the run seed, every draw is logged,
and the history interleaves axis/angle queries with foreign draws and re-seeds
(other code sharing the global RNG), so one seed is one execution and the
answers must not depend on the RNG history.
"""
import math

import numpy as np

from ..core import Machine, rs

from menpo.image import Image
from menpo.shape import PointCloud, TriMesh
from menpo.transform import (Affine, Homogeneous, NonUniformScale, Rotation, Scale, TransformChain, Translation, UniformScale,
                             image_coords_to_tcoords, rotate_ccw_about_centre, scale_about_centre,
                             shear_about_centre, tcoords_to_image_coords, transform_about_centre)
from .. import walker

SHAPES = [(5, 7), (2, 2), (10, 3), (64, 48), (7, 5)]


def rodrigues(axis, angle):
    k = np.asarray(axis, dtype=float)
    k = k / np.linalg.norm(k)
    K = np.array([[0, -k[2], k[1]], [k[2], 0, -k[0]], [-k[1], k[0], 0]])
    return np.eye(3) * math.cos(angle) + math.sin(angle) * K + (1 - math.cos(angle)) * np.outer(k, k)


def rot2(angle):
    return np.array([[math.cos(angle), -math.sin(angle)], [math.sin(angle), math.cos(angle)]])


# angles in degrees: all quadrants, negative, beyond one turn; kept >= 1 degree
# away from multiples of 180 for the 3D axis-angle clause
ANGLE_BASE = [1.0, 7.5, 30.0, 45.0, 60.0, 89.0, 90.0, 91.0, 120.0, 135.0, 150.0, 179.0]


def angle_from(op):
    base = ANGLE_BASE[op["a"] % len(ANGLE_BASE)] + (op["frac"] % 1000) / 1000.0 * 0.9
    half = op["half"] % 2          # add 180 -> quadrants III/IV
    turns = (op["turns"] % 5) - 2  # -2..2 whole turns
    if op.get("big"):
        turns *= 45                    # up to +-90 turns: more than 360 radians
    sign = -1.0 if op["neg"] % 2 else 1.0
    return sign * (base + 180.0 * half) + 360.0 * turns


class RotationRng(Machine):
    PROPERTY = "C20"
    NAME = "rotation_rng"
    BUDGET = {"quick": {"runs": 96000, "wall": 70, "digests": 32, "block": 500},
              "thorough": {"runs": 1200000, "wall": 800, "digests": 256, "block": 2000}}
    LEVEL = {"quick": "exploration", "thorough": "exploration"}
    RULE = ("seeded histories of rotation constructions (ccw 2D / 3D about x,y,z, quaternion, "
            "general axis-angle), axis/angle queries, foreign draws from and re-seeds of the "
            "global NumPy RNG, and - in history form - the other convenience constructors (texture/image "
            "coordinate transforms for a few recurring image shapes, scale/rotate/shear/transform about the "
            "centre of point clouds, meshes and images, the Scale factory) whose returned transforms or passed "
            "arrays the caller then edits in place; a history is non-trivial if at least one clause was "
            "evaluated; distinct = distinct operation-kind sequences")
    STATE_MEASURE = "(dimension, axis kind, quadrant of the angle, |turns|, RNG draws so far capped at 6)"
    REAL = ["menpo.transform.Rotation constructors, axis_and_angle_of_rotation, as_vector/from_vector",
            "numpy global RNG (seeded and logged by the simulator)"]
    STUB = ["np.random.rand is wrapped (same values, every draw recorded)"]
    ASSUMPTIONS = ["the second and third sentence of C20 (about-centre helpers, Scale factory, texture-coordinate "
                   "transforms) are pure functions; they are exercised here only in history form (repeated calls for "
                   "recurring arguments with in-place edits of earlier results in between), not as an input sweep",
                   "transform_about_centre is called with linear maps (a transform with its own translation moves the centre by it)",
                   "angles stay >= 1 degree away from identity and half-turns for the 3D axis-angle clause",
                   "no adversarial RNG stub: a draw parallel to the axis is not forced"]
    REQUIRED_PROBES = ("ccw2d", "ccw3d_x", "ccw3d_y", "ccw3d_z", "quat", "general3d",
                       "axis_angle_3d", "axis_angle_2d", "axis_angle_after_foreign_draw",
                       "axis_angle_repeated", "axis_angle_after_reseed", "rng_draw_logged",
                       "negative_angle", "beyond_one_turn", "radians", "tcoords", "returned_transform_mutated",
                       "about_centre_scale", "about_centre_rotate", "about_centre_shear", "about_centre_transform",
                       "scale_factory", "scale_factory_zero_refused", "passed_array_mutated",
                       "radians_beyond_360", "quat_from_existing_rotation", "quat_from_integer_matrix_rotation", "about_centre_with_a_chain", "about_centre_chain_used_again", "about_centre_with_a_projective_map", "quat_half_turn", "constructor_result_used_in_about_a_point_idiom", "about_centre_per_axis_scale", "scale_factory_opposite_signs", "centre_with_zero_coordinate",
                       "scale_factory_scalar_zero")

    @classmethod
    def swarm(cls, rng, tier):
        return {"steps": rng.randint(3, 14 if tier == "quick" else 40),
                "rng_seed": rng.getrandbits(32),
                "w": [rng.choice([0, 1, 1, 2, 3]) for _ in range(10)]}

    KINDS = ["ccw2d", "ccw3d", "quat", "general3d", "axis_angle", "burn", "reseed",
             "tcoords", "about_centre", "scale_factory"]

    @classmethod
    def draw(cls, rng, cfg):
        w = list(cfg["w"])
        w[4] += 2  # queries are the point
        if not any(w):
            w = [1] * 10
        kind = rng.choices(cls.KINDS, weights=w)[0]
        op = {"op": kind}
        if kind in ("ccw2d", "ccw3d"):
            op.update(a=rng.randrange(12), frac=rng.randrange(1000), half=rng.randrange(2),
                      turns=rng.randrange(5), neg=rng.randrange(2), deg=rng.randrange(2),
                      axis=rng.randrange(3), big=int(rng.random() < 0.25))
        elif kind in ("quat", "general3d"):
            op.update(data=rng.getrandbits(32), a=rng.randrange(12), frac=rng.randrange(1000),
                      half=rng.randrange(2), neg=rng.randrange(2), via=rng.randrange(4))
        elif kind == "axis_angle":
            op.update(i=rng.randrange(64), times=rng.randrange(1, 4))
        elif kind == "burn":
            op.update(n=rng.randrange(1, 9))
        elif kind == "reseed":
            op.update(s=rng.getrandbits(32))
        elif kind == "tcoords":
            op.update(shape=rng.randrange(5), form=rng.randrange(3), mutate=rng.randrange(4))
        elif kind == "about_centre":
            op.update(which=rng.randrange(4), obj=rng.randrange(3), data=rng.getrandbits(32), a=rng.randrange(12),
                      frac=rng.randrange(1000), neg=rng.randrange(2), deg=rng.randrange(2), mutate=rng.randrange(3),
                      d3=rng.randrange(3))
        else:
            op.update(data=rng.getrandbits(32), how=rng.randrange(5), d=rng.randrange(2, 4), mutate=rng.randrange(2))
        return op

    def setup(self):
        self.pool = []  # (rotation, meta)
        self.draws = 0
        self.foreign_since = False
        self.reseed_since = False
        self._orig_rand = np.random.rand
        machine = self

        def logged_rand(*shape):
            v = machine._orig_rand(*shape)
            machine.draws += 1
            machine.ctx.probe("rng_draw_logged")
            machine.ctx.out("rand", np.asarray(v))
            return v

        np.random.rand = logged_rand
        np.random.seed(self.cfg["rng_seed"] % (2 ** 32))

    def teardown(self):
        np.random.rand = self._orig_rand

    def _meta(self, dim, axis, deg):
        q = int((deg % 360.0) // 90)
        return (dim, axis, q, min(int(abs(deg) // 360), 2))

    def step(self, op):
        ctx = self.ctx
        k = op["op"]
        if k == "ccw2d":
            deg = angle_from(op)
            in_deg = op["deg"] % 2 == 0
            theta = deg if in_deg else math.radians(deg)
            r = Rotation.init_from_2d_ccw_angle(theta, degrees=in_deg)
            ref = rot2(math.radians(deg))
            ctx.probe("ccw2d")
            self._cmp(r, ref, "ccw_constructor", "2d")
            self._probes(deg, in_deg)
            if op["turns"] % 2:
                self._used_about_a_point(r, 2, rs(op["frac"] + 7), "ccw_constructor")
            self.pool.append((r, ref, self._meta(2, "z", deg)))
        elif k == "ccw3d":
            deg = angle_from(op)
            in_deg = op["deg"] % 2 == 0
            theta = deg if in_deg else math.radians(deg)
            ax = op["axis"] % 3
            ctor = [Rotation.init_from_3d_ccw_angle_around_x,
                    Rotation.init_from_3d_ccw_angle_around_y,
                    Rotation.init_from_3d_ccw_angle_around_z][ax]
            r = ctor(theta, degrees=in_deg)
            ref = rodrigues(np.eye(3)[ax], math.radians(deg))
            ctx.probe("ccw3d_" + "xyz"[ax])
            self._cmp(r, ref, "ccw_constructor", "3d_" + "xyz"[ax])
            self._probes(deg, in_deg)
            if op["turns"] % 2:
                self._used_about_a_point(r, 3, rs(op["frac"] + 7), "ccw_constructor")
            self.pool.append((r, ref, self._meta(3, "xyz"[ax], deg)))
        elif k in ("quat", "general3d"):
            g = rs(op["data"])
            axis = g.randn(3)
            axis /= np.linalg.norm(axis)
            deg = (ANGLE_BASE[op["a"] % 12] + (op["frac"] % 1000) / 1000.0 * 0.9)
            if k == "general3d":
                deg = (deg + 180.0 * (op["half"] % 2)) * (-1.0 if op["neg"] % 2 else 1.0)
            ang = math.radians(deg)
            ref = rodrigues(axis, ang)
            if k == "quat":
                # unit quaternion with positive scalar part (angle < 180 degrees)
                q = np.concatenate([[math.cos(ang / 2)], math.sin(ang / 2) * axis])
                if op["neg"] % 2:
                    q[1:] *= -1.0
                    ref = ref.T
                via = op.get("via", 0) % 4
                olds = [x for x in self.pool if x[2][0] == 3]
                if via == 3:
                    # a rotation given as an integer matrix (an axis permutation with signs, det +1; a quarter or a
                    # third of a turn), then new parameters through from_vector
                    P = np.zeros((3, 3), dtype=np.int64)
                    perm = [(1, 2, 0), (2, 0, 1), (0, 2, 1), (2, 1, 0), (1, 0, 2)][op["a"] % 5]
                    for i_, j_ in enumerate(perm):
                        P[i_, j_] = 1
                    if np.linalg.det(P) < 0:
                        P[op["frac"] % 3] *= -1
                    try:
                        base = Rotation(P.copy())
                        hb = np.array(base.h_matrix, dtype=float)
                        pb = base.as_vector().copy()
                        rb = base.from_vector(pb)
                        ctx.require(float(np.abs(np.asarray(rb.rotation_matrix, dtype=float) - P).max()) < 1e-9, "quaternion_roundtrip",
                                    "rotation_to_q_to_rotation", lambda: "integer matrix %r came back as %r" % (P.tolist(), np.asarray(rb.rotation_matrix).tolist()))
                        r = base.from_vector(q.copy()) if op["half"] % 2 else base.copy()
                        if not op["half"] % 2:
                            r.from_vector_inplace(q.copy())
                    except Exception as ex:
                        ctx.fail("quaternion_roundtrip", "raised_for_integer_matrix", "Rotation(%r) then from_vector: %r" % (P.tolist(), ex))
                        return
                    ctx.require(np.array_equal(np.asarray(base.h_matrix, dtype=float), hb), "quaternion_roundtrip",
                                "from_vector_changed_the_rotation_it_was_called_on")
                    ctx.probe("quat_from_integer_matrix_rotation")
                elif via and olds:
                    # the optimiser pattern: read the parameters of an existing rotation, then build the next
                    # one from it with new parameters
                    base = olds[op["a"] % len(olds)][0]
                    p0 = base.as_vector().copy()
                    hb = base.h_matrix.copy()
                    if via == 1:
                        r = base.from_vector(q.copy())
                    else:
                        r = base.copy()
                        r.from_vector_inplace(q.copy())
                    ctx.require(np.array_equal(base.h_matrix, hb) and np.allclose(base.as_vector(), p0), "quaternion_roundtrip",
                                "from_vector_changed_the_rotation_it_was_called_on")
                    ctx.probe("quat_from_existing_rotation")
                else:
                    r = Rotation.init_3d_from_quaternion(q.copy())
                    if op["frac"] % 8 == 0:
                        # the unit quaternions with scalar part exactly 0 are the half-turns
                        qh = np.concatenate([[0.0], axis])
                        try:
                            rh = Rotation.init_3d_from_quaternion(qh.copy())
                            Rh = np.asarray(rh.rotation_matrix, dtype=float)
                            qb = np.asarray(rh.as_vector(), dtype=float)
                        except Exception as ex:
                            ctx.fail("quaternion_roundtrip", "half_turn_quaternion_raised", repr(ex))
                            return
                        want = 2.0 * np.outer(axis, axis) - np.eye(3)
                        ctx.require(float(np.abs(Rh - want).max()) < 1e-9, "quaternion_roundtrip", "half_turn_quaternion_gives_another_rotation",
                                    lambda: "q=%r gives %r, a half-turn about that axis is %r" % (qh.tolist(), Rh.tolist(), want.tolist()))
                        ctx.require(min(float(np.abs(qb - qh).max()), float(np.abs(qb + qh).max())) < 1e-9, "quaternion_roundtrip", "q_to_rotation_to_q",
                                    lambda: "q=%r back=%r" % (qh.tolist(), qb.tolist()))
                        ctx.probe("quat_half_turn")
                ctx.probe("quat")
                q2 = r.as_vector()
                e = float(np.abs(q2 - q).max())
                ctx.err("quaternion_roundtrip", e)
                ctx.require(e < 1e-9, "quaternion_roundtrip", "q_to_rotation_to_q",
                            lambda: "q=%r back=%r" % (q.tolist(), q2.tolist()))
                ref = r.rotation_matrix.copy()  # convention of q not judged, only round trip
                ctx.require(np.abs(ref @ ref.T - np.eye(3)).max() < 1e-9 and np.linalg.det(ref) > 0,
                            "quaternion_roundtrip", "not_a_rotation", lambda: repr(ref))
            else:
                r = Rotation(ref.copy())
                ctx.probe("general3d")
            # matrix -> quaternion -> matrix
            r2 = r.from_vector(r.as_vector())
            e = float(np.abs(r2.rotation_matrix - r.rotation_matrix).max())
            ctx.err("matrix_quaternion_matrix", e)
            ctx.require(e < 1e-9, "quaternion_roundtrip", "rotation_to_q_to_rotation",
                        lambda: "err=%g" % e)
            self.pool.append((r, ref, self._meta(3, "general", deg)))
        elif k == "axis_angle":
            if not self.pool:
                return
            r, ref, meta = self.pool[op["i"] % len(self.pool)]
            for t in range(op["times"]):
                before = r.h_matrix.copy()
                axis, angle = r.axis_and_angle_of_rotation()
                ctx.require(np.array_equal(before, r.h_matrix), "axis_angle_reconstructs",
                            "query_modified_rotation")
                if meta[0] == 2:
                    ctx.probe("axis_angle_2d")
                    self._check2d(r, ref, axis, angle)
                else:
                    ctx.probe("axis_angle_3d")
                    self._check3d(r, ref, axis, angle)
                if t:
                    ctx.probe("axis_angle_repeated")
                if self.foreign_since:
                    ctx.probe("axis_angle_after_foreign_draw")
                if self.reseed_since:
                    ctx.probe("axis_angle_after_reseed")
                self.foreign_since = self.reseed_since = False
                ctx.out("aa", meta, None if axis is None else np.asarray(axis, float), float(angle) if angle is not None else None)
            ctx.state(meta, min(self.draws, 6))
        elif k == "tcoords":
            self._tcoords(op)
        elif k == "about_centre":
            self._about_centre(op)
        elif k == "scale_factory":
            self._scale_factory(op)
        elif k == "burn":
            np.random.random_sample(op["n"])
            self.foreign_since = True
        elif k == "reseed":
            np.random.seed(op["s"] % (2 ** 32))
            self.reseed_since = True

    # ---- the other convenience constructors, in history form: the caller may edit in place what a
    # constructor returned (or an array it passed); later constructions must be unaffected
    def _tcoords(self, op):
        ctx = self.ctx
        shape = SHAPES[op["shape"] % len(SHAPES)]
        arg = [shape, list(shape), np.array(shape)][op["form"] % 3]
        h, w = shape
        try:
            t = tcoords_to_image_coords(arg)
            ti = image_coords_to_tcoords(arg)
        except Exception as ex:
            ctx.fail("tcoords", "constructor_raised", "image shape %r given as %s: %r" % (shape, type(arg).__name__, ex))
            return
        ctx.require(tuple(int(v) for v in arg) == tuple(shape), "tcoords", "shape_argument_modified",
                    lambda: "the image shape passed as %s came back as %r (was %r)" % (type(arg).__name__, list(arg), shape))
        ctx.probe("tcoords")
        corners = np.array([[0.0, 0.0], [1.0, 0.0], [0.0, 1.0], [1.0, 1.0], [0.5, 0.25]])
        # texture coordinate (s, t): s to the right, t upwards -> pixel (row, col), vertical axis flipped
        exp = np.stack([(1.0 - corners[:, 1]) * (h - 1), corners[:, 0] * (w - 1)], 1)
        got = np.asarray(t.apply(corners.copy()))
        err = float(np.abs(got - exp).max())
        ctx.err("tcoords", err)
        ctx.require(err < 1e-9, "tcoords", "corners_not_mapped_to_corner_pixels",
                    lambda: "image shape %r: unit-square corners map to %r, expected %r" % (shape, got.tolist(), exp.tolist()))
        back = np.asarray(ti.apply(got.copy()))
        ctx.require(float(np.abs(back - corners).max()) < 1e-9, "tcoords", "not_mutual_inverses",
                    lambda: "image_coords_to_tcoords(tcoords_to_image_coords(x)) = %r for x = %r" % (back.tolist(), corners.tolist()))
        fwd = np.asarray(t.apply(np.asarray(ti.apply(exp.copy()))))
        ctx.require(float(np.abs(fwd - exp).max()) < 1e-9 * max(h, w), "tcoords", "not_mutual_inverses_other_order")
        m = op["mutate"] % 4
        if m == 1:      # the caller keeps composing onto what it was given
            t.compose_before_inplace(UniformScale(2.0, 2))
            ctx.probe("returned_transform_mutated")
        elif m == 2:
            ti.compose_after_inplace(Translation(np.array([3.0, -1.0])))
            ctx.probe("returned_transform_mutated")
        elif m == 3 and isinstance(arg, np.ndarray):
            arg += 5   # the caller reuses its shape array
        ctx.state("tcoords", shape, m)

    def _about_centre(self, op):
        ctx = self.ctx
        g = rs(op["data"])
        d = 2 if (op["which"] % 4 in (1, 2) or op["d3"]) else 3
        pts = g.uniform(-20, 40, size=(5, d))
        if op["frac"] % 4 == 0:
            # an object whose centre has an exactly-zero coordinate (symmetric about an axis plane)
            pts[:, 0] = np.array([-3.0, 3.0, -1.5, 1.5, 0.0])[:5] * (1 + op["a"] % 3)
            pts[0, 0], pts[1, 0] = pts[:, 0].min(), pts[:, 0].max()
            self.ctx.probe("centre_with_zero_coordinate")
        kind = op["obj"] % 3
        if kind == 0:
            obj = PointCloud(pts.copy())
        elif kind == 1 and d == 2:
            obj = TriMesh(pts.copy())
        else:
            obj = Image(g.rand(1, *[int(v) for v in g.randint(3, 9, size=d)])) if d == 2 else PointCloud(pts.copy())
        before = walker.digest(obj, skip=("__empty__",))
        c = np.asarray(obj.centre(), dtype=float)
        which = op["which"] % 4
        deg = angle_from({"a": op["a"], "frac": op["frac"], "half": 0, "turns": 2, "neg": op["neg"]})
        in_deg = op["deg"] % 2 == 0
        theta = deg if in_deg else math.radians(deg)
        if which == 0:
            if op["mutate"] % 3 == 2:
                f = np.exp(g.uniform(-1, 1, size=d))      # the documented (n_dims,) per-axis form
                t = scale_about_centre(obj, f.copy())
                L = np.diag(f)
                self.ctx.probe("about_centre_per_axis_scale")
            else:
                sc = float(np.exp(g.uniform(-1, 1)))
                t = scale_about_centre(obj, sc)
                L = sc * np.eye(d)
            name = "scale"
        elif which == 1:
            t = rotate_ccw_about_centre(obj, theta, degrees=in_deg)
            L = rot2(math.radians(deg))
            name = "rotate"
        elif which == 2:
            phi, psi = deg / 6.0, -deg / 9.0
            a1, a2 = (phi, psi) if in_deg else (math.radians(phi), math.radians(psi))
            t = shear_about_centre(obj, a1, a2, degrees=in_deg)
            plain = Affine.init_from_2d_shear(a1, a2, degrees=in_deg)
            L = np.array(plain.h_matrix, dtype=float)[:2, :2]
            name = "shear"
        else:
            # a linear map (no translation of its own), so that "keeps the centre fixed" applies as stated
            def lin(gg):
                return Affine(np.vstack([np.hstack([gg.uniform(-1, 1, size=(d, d)) + 2 * np.eye(d), np.zeros((d, 1))]),
                                         np.eye(d + 1)[d:]]))
            if op["frac"] % 3 == 1:
                # the documented fallback for anything that is not Homogeneous: here a chain of two linear maps,
                # which the caller keeps and uses again (for other objects, and as the plain transform it is)
                chains = self.__dict__.setdefault("_kept_chains", {})
                if d not in chains:
                    gg = rs(op["data"] ^ 0x9E37)
                    a1, a2 = lin(gg), lin(gg)
                    chains[d] = (TransformChain([a1, a2]),
                                 np.array(a2.h_matrix, dtype=float)[:d, :d] @ np.array(a1.h_matrix, dtype=float)[:d, :d])
                else:
                    ctx.probe("about_centre_chain_used_again")
                chain, L = chains[d]
                probe_pts = g.uniform(-5, 5, size=(3, d))
                plain_before = np.asarray(chain.apply(probe_pts.copy()))
                t = transform_about_centre(obj, chain)
                plain_after = np.asarray(chain.apply(probe_pts.copy()))
                ctx.require(len(chain.transforms) == 2 and plain_after.shape == plain_before.shape and
                            float(np.abs(plain_after - plain_before).max()) < 1e-9, "about_centre", "transform_argument_modified_chain",
                            lambda: "the chain passed to transform_about_centre now has %d members and maps %r to %r (before: %r)"
                                    % (len(chain.transforms), probe_pts[0].tolist(), plain_after[0].tolist(), plain_before[0].tolist()))
                ctx.probe("about_centre_with_a_chain")
                name, off = "transform", np.zeros(d)
            elif op["frac"] % 3 == 2:
                # a projective map that fixes the origin: about the centre it fixes the centre and acts on offsets as
                # the plain map does (x -> L x / (p.x + 1))
                Hm = np.eye(d + 1)
                Hm[:d, :d] = g.uniform(-1, 1, size=(d, d)) + 2 * np.eye(d)
                Hm[d, :d] = g.uniform(-0.02, 0.02, size=d)
                t = transform_about_centre(obj, Homogeneous(Hm.copy()))
                ctx.probe("about_centre_with_a_projective_map")
                v = g.uniform(-5, 5, size=(4, d))
                got_c = np.asarray(t.apply(c[None, :].copy()))[0]
                err = float(np.abs(got_c - c).max())
                ctx.require(err < 1e-8 * (1 + np.abs(c).max()), "about_centre", "centre_not_fixed_projective",
                            lambda: "the centre %r moves to %r" % (c.tolist(), got_c.tolist()))
                got = np.asarray(t.apply(c + v))
                exp = c + (v @ Hm[:d, :d].T) / (v @ Hm[d, :d] + 1.0)[:, None]
                err = float(np.abs(got - exp).max())
                ctx.require(err < 1e-8 * (1 + np.abs(exp).max()), "about_centre", "offsets_not_transformed_plainly_projective",
                            lambda: "err %.3g" % err)
                ctx.require(walker.digest(obj, skip=("__empty__",)) == before, "about_centre", "object_modified_transform")
                ctx.state("about", "projective", kind, d)
                return
            else:
                A = lin(g)
                t = transform_about_centre(obj, A)
                Ah = np.array(A.h_matrix, dtype=float)
                L, name = Ah[:d, :d], "transform"
                # a general transform with its own translation moves the centre by that translation
                off = Ah[:d, d]
        ctx.probe("about_centre_" + name)
        v = g.uniform(-5, 5, size=(4, d))
        got_c = np.asarray(t.apply(c[None, :].copy()))[0]
        exp_c = c if which != 3 else c + off
        err = float(np.abs(got_c - exp_c).max())
        ctx.err("about_centre", err)
        ctx.require(err < 1e-8 * (1 + np.abs(c).max()), "about_centre", "centre_not_fixed_" + name,
                    lambda: "%s about the centre %r moves the centre to %r" % (name, c.tolist(), got_c.tolist()))
        got = np.asarray(t.apply(c + v))
        exp = exp_c + v @ L.T
        err = float(np.abs(got - exp).max())
        ctx.require(err < 1e-8 * (1 + np.abs(exp).max()), "about_centre", "offsets_not_transformed_plainly_" + name,
                    lambda: "err %.3g" % err)
        ctx.require(walker.digest(obj, skip=("__empty__",)) == before, "about_centre", "object_modified_" + name)
        if op["mutate"] % 3 == 1 and hasattr(t, "compose_before_inplace"):
            try:
                t.compose_before_inplace(Translation(np.ones(d)))
                ctx.probe("returned_transform_mutated")
            except Exception:
                pass
        ctx.state("about", name, kind, d)

    def _scale_factory(self, op):
        ctx = self.ctx
        g = rs(op["data"])
        d = op["d"]
        how = op["how"] % 5
        if how == 0:       # clearly equal factors
            f = np.full(d, float(np.exp(g.uniform(-1, 1))))
            t = Scale(f)
            ctx.require(isinstance(t, UniformScale), "scale_factory", "equal_factors_not_uniform", lambda: type(t).__name__)
        elif how == 1:     # clearly different factors (also: equal magnitude, opposite sign)
            f = np.exp(g.uniform(-1, 1, size=d))
            f[0] = f[1] * 1.7
            if op["mutate"] % 2 == 0 and op["data"] % 3 == 0:
                f = np.full(d, float(f[1]))
                f[int(g.randint(d))] *= -1.0
                self.ctx.probe("scale_factory_opposite_signs")
            t = Scale(f)
            ctx.require(isinstance(t, NonUniformScale) and not isinstance(t, UniformScale), "scale_factory", "different_factors_not_non_uniform",
                        lambda: type(t).__name__)
        elif how == 2:     # scalar + n_dims
            sc = float(np.exp(g.uniform(-1, 1)))
            f = np.full(d, sc)
            t = Scale(sc, n_dims=d)
            ctx.require(isinstance(t, UniformScale), "scale_factory", "scalar_not_uniform", lambda: type(t).__name__)
        else:              # a zero among the factors must be refused
            f = np.exp(g.uniform(-1, 1, size=d))
            f[int(g.randint(d))] = 0.0
            scalar_zero = op["mutate"] % 2 == 1 and op["data"] % 2 == 0
            try:
                if scalar_zero:
                    self.ctx.probe("scale_factory_scalar_zero")
                    Scale([0, 0.0, np.float64(0.0)][op["data"] % 3], n_dims=d) if op["data"] % 4 else Scale(0.0, d)
                else:
                    Scale(list(f) if how == 3 else f)
                ctx.fail("scale_factory", "zero_factor_accepted", "Scale(%r) did not raise" % (f.tolist(),))
            except ValueError:
                ctx.probe("scale_factory_zero_refused")
                ctx.ok()
            return
        ctx.probe("scale_factory")
        x = g.uniform(-3, 3, size=(4, d))
        f0 = f.copy()
        got = np.asarray(t.apply(x.copy()))
        ctx.require(float(np.abs(got - x * f0).max()) < 1e-12 * 30, "scale_factory", "wrong_factors", lambda: repr(got.tolist()))
        if op["mutate"] % 2 and how in (0, 1):
            f *= 3.0       # the caller reuses the array it passed
            got2 = np.asarray(t.apply(x.copy()))
            ctx.require(float(np.abs(got2 - x * f0).max()) < 1e-12 * 30, "scale_factory", "tracks_callers_array",
                        "editing the array passed to Scale() changed the transform")
            ctx.probe("passed_array_mutated")
        self._used_about_a_point(t, d, g, "scale_factory")
        ctx.state("scale", how, d)

    def _used_about_a_point(self, t, d, g, what):
        """The hand-written 'about a point' idiom - translate there, transform, translate back, each step a non-in-place
        composition - uses what a convenience constructor returned as an operand; afterwards that object still is
        what the constructor promised."""
        ctx = self.ctx
        h0 = np.array(t.h_matrix, dtype=float)
        c = g.uniform(-5, 5, size=d)
        try:
            about = Translation(-c).compose_before(t).compose_before(Translation(c))
            t.compose_before(Translation(c))
            t.compose_after(Translation(-c))
        except Exception as ex:
            ctx.fail(what, "composition_with_a_translation_raised", repr(ex))
            return
        ctx.probe("constructor_result_used_in_about_a_point_idiom")
        ctx.require(np.array_equal(np.asarray(t.h_matrix, dtype=float), h0), what, "returned_transform_changed_by_being_composed",
                    lambda: "after non-in-place compositions with translations the %s holds %r (was %r)" % (type(t).__name__, np.asarray(t.h_matrix).tolist(), h0.tolist()))
        got = np.asarray(about.apply(c[None, :].copy()))[0]
        ctx.require(float(np.abs(got - c).max()) < 1e-9 * (1 + np.abs(c).max()), what, "about_a_point_idiom_moves_the_point",
                    lambda: "%r -> %r" % (c.tolist(), got.tolist()))

    def _probes(self, deg, in_deg):
        if deg < 0:
            self.ctx.probe("negative_angle")
        if abs(deg) > 360:
            self.ctx.probe("beyond_one_turn")
        if abs(math.radians(deg)) > 360 and not in_deg:
            self.ctx.probe("radians_beyond_360")
        if not in_deg:
            self.ctx.probe("radians")

    def _cmp(self, r, ref, check, sig):
        m = r.rotation_matrix
        e = float(np.abs(m - ref).max())
        self.ctx.err(check, e)
        self.ctx.require(e < 1e-9, check, sig, lambda: "matrix %r expected %r" % (m.tolist(), ref.tolist()))
        n = ref.shape[0]
        h = r.h_matrix
        self.ctx.require(np.abs(h[:n, n]).max() == 0 and np.array_equal(h[n], np.eye(n + 1)[n]),
                         check, sig + "_not_pure_rotation")

    def _check2d(self, r, ref, axis, angle):
        ctx = self.ctx
        if axis is None or angle is None or not np.isfinite(angle):
            ctx.fail("axis_angle_reconstructs", "2d_no_answer", repr((axis, angle)))
            return
        ctx.require(np.allclose(np.asarray(axis, float), [0, 0, 1]), "axis_angle_reconstructs", "2d_axis",
                    lambda: repr(axis))
        rec = rot2(float(angle))
        e = float(np.abs(rec - ref).max())
        if e < 1e-6:
            ctx.err("axis_angle_2d", e)
            ctx.ok()
            return
        # classify: is it exactly the lost sign (reported +|theta| for a clockwise rotation)?
        if float(np.abs(rec.T - ref).max()) < 1e-6 and angle > 0 and ref[1, 0] < 0:
            ctx.fail("axis_angle_reconstructs", "2d_sign_lost_for_negative_angle",
                     "R=%r reported angle=%r" % (ref.tolist(), float(angle)))
        else:
            ctx.fail("axis_angle_reconstructs", "2d_wrong", "R=%r reported angle=%r" % (ref.tolist(), float(angle)))

    def _check3d(self, r, ref, axis, angle):
        ctx = self.ctx
        if axis is None or angle is None or not np.isfinite(angle) or not np.all(np.isfinite(np.asarray(axis, float))):
            ctx.fail("axis_angle_reconstructs", "3d_no_answer", "R=%r -> axis=%r angle=%r" % (ref.tolist(), axis, angle))
            return
        axis = np.asarray(axis, float)
        ctx.require(abs(np.linalg.norm(axis) - 1) < 1e-9, "axis_angle_reconstructs", "3d_axis_not_unit",
                    lambda: repr(axis))
        rec = rodrigues(axis, float(angle))
        e = float(np.abs(rec - ref).max())
        ctx.err("axis_angle_3d", e)
        if not (e < 1e-6):      # also true for a non-finite axis or angle
            kind = "3d_sign" if float(np.abs(rec.T - ref).max()) < 1e-6 else "3d_wrong"
            ctx.fail("axis_angle_reconstructs", kind,
                     "R=%r axis=%r angle=%r err=%g" % (ref.tolist(), axis.tolist(), float(angle), e))
        else:
            ctx.ok()


MACHINE = RotationRng
