"""C08: retargeting an alignment equals rebuilding it, whatever happened before.

Histories of set_target (valid, rejected), copies, and noise operations on
long-lived alignment objects; after every accepted set_target the object is compared
with a freshly constructed alignment of the same class and options.
"""
import warnings

import numpy as np

from ..core import Machine, rs
from .. import gen

from menpo.shape import PointCloud, TriMesh
from menpo.transform import (Affine, GeneralizedProcrustesAnalysis, Rotation, Similarity,
                             Translation, UniformScale, AlignmentSimilarity)

KINDS = ["AlignmentTranslation", "AlignmentUniformScale", "AlignmentRotation",
         "AlignmentSimilarity", "AlignmentAffine", "ThinPlateSplines", "PiecewiseAffine"]
POOL = 5
RTOL = 1e-9


def opts_for(kind, bits):
    if kind == "AlignmentRotation":
        return {"allow_mirror": bool(bits & 1)}
    if kind == "AlignmentSimilarity":
        return {"rotation": not bool(bits & 2), "allow_mirror": bool(bits & 1)}
    if kind == "ThinPlateSplines":
        return {"kernel": [None, "R2LogR2RBF", "R2LogRRBF"][(bits >> 1) % 3],
                "min_singular_val": [1e-4, 1e-2][bits & 1], "close_pair": bool(bits & 8)}
    if kind == "PiecewiseAffine":
        return {"src_trimesh": bool(bits & 1)}
    return {}


def ctor_opts(opts):
    return {k: v for k, v in opts.items() if k not in ("close_pair", "src_trimesh")}


class Entry(object):
    pass


class Retarget(Machine):
    PROPERTY = "C08"
    NAME = "retarget"
    BUDGET = {"quick": {"runs": 24000, "wall": 75, "digests": 24, "block": 100},
              "thorough": {"runs": 500000, "wall": 840, "digests": 128, "block": 400}}
    LEVEL = {"quick": "exploration", "thorough": "exploration"}
    RULE = ("seeded histories over a pool of alignments (all 7 alignment classes x option vectors, 2D/3D): "
            "set_target (family member + noise, mirrored, arbitrary, exact), rejected targets (wrong "
            "n_points / n_dims), copies, noise operations (from_vector, pseudoinverse, apply, "
            "aligned_source, in-place composition with the natural family member, as_non_alignment), "
            "GPA runs; non-trivial = at least one clause evaluated; distinct = distinct op-kind sequences")
    STATE_MEASURE = "sorted multiset over the pool of (class, option vector, #targets set capped at 3, is-copy)"
    REAL = ["all menpo alignment classes, Targetable.set_target, copy, GeneralizedProcrustesAnalysis"]
    STUB = []
    ASSUMPTIONS = ["point sets in general position (generator enforces minimum pairwise distance and rank)",
                   "the caller edits a target array after passing it only to set that same point set again "
                   "(reset_same_target); otherwise passed arrays are left alone (shared by documented design)",
                   "pseudoinverses of TPS/PWA are exercised as noise but not re-targeted (their construction "
                   "options are not well defined)"]
    REQUIRED_PROBES = tuple("retarget2_" + k for k in KINDS) + (
        "rejected_n_points", "rejected_n_dims", "rejected_between_accepted", "set_target_on_copy",
        "mirror_needed_allow_off", "mirror_needed_allow_on", "similarity_rotation_off",
        "tps_floor_matters", "gpa_checked", "gpa_not_converged", "noise_before_retarget", "pinv_retargeted",
        "integer_dtype_first_target", "single_precision_source_and_first_target", "same_target_reset_after_inplace_edit", "target_is_a_pointcloud_subclass", "rejected_same_size_other_shape",
        "only_some_target_points_moved")

    @classmethod
    def swarm(cls, rng, tier):
        return {"steps": rng.randint(3, 16 if tier == "quick" else 40),
                "kinds": rng.sample(range(len(KINDS)), rng.randint(1, 4)),
                "d3": rng.random() < 0.3}

    @classmethod
    def draw(cls, rng, cfg):
        r = rng.random()
        if r < 0.22:
            return {"op": "new", "kind": rng.choice(cfg["kinds"]), "bits": rng.getrandbits(4),
                    "seed": rng.getrandbits(32), "n": rng.randrange(4, 10), "d3": int(cfg["d3"] and rng.random() < 0.6),
                    "mode": rng.randrange(4), "dst": rng.randrange(64), "int": int(rng.random() < 0.2)}
        if r < 0.62:
            return {"op": "set_target", "i": rng.randrange(64), "seed": rng.getrandbits(32),
                    "mode": rng.randrange(4)}
        if r < 0.66:
            return {"op": "reset_same_target", "i": rng.randrange(64), "seed": rng.getrandbits(32), "how": rng.randrange(3)}
        if r < 0.74:
            return {"op": "set_target_bad", "i": rng.randrange(64), "mode": rng.randrange(4)}
        if r < 0.80:
            return {"op": "copy", "i": rng.randrange(64), "dst": rng.randrange(64)}
        if r < 0.95:
            return {"op": "noise", "i": rng.randrange(64), "which": rng.randrange(6),
                    "seed": rng.getrandbits(32), "dst": rng.randrange(64)}
        return {"op": "gpa", "seed": rng.getrandbits(32), "m": rng.randrange(2, 7),
                "n": rng.randrange(4, 9), "mirror": rng.randrange(2), "d3": rng.randrange(2),
                "dis": rng.choice([0, 1, 1, 2])}

    @classmethod
    def exhaustive(cls, tier):
        """Every (class x option vector x dimension) with 1..3 set_targets."""
        if tier != "thorough":
            return
        for ki, kind in enumerate(KINDS):
            for bits in range(16):
                for d3 in (0, 1):
                    if d3 and kind in ("ThinPlateSplines", "PiecewiseAffine"):
                        continue
                    for nsets in (1, 2, 3):
                        for modes in range(4):
                            ops = [{"op": "new", "kind": ki, "bits": bits, "seed": 1000 + bits * 7 + nsets,
                                    "n": 6, "d3": d3, "mode": modes, "dst": 0}]
                            for j in range(nsets):
                                ops.append({"op": "set_target", "i": 0, "seed": 77 + j * 13 + bits,
                                            "mode": (modes + j) % 4})
                            yield {"steps": len(ops), "kinds": [ki], "d3": bool(d3), "kind": "exhaustive"}, ops

    # ------------------------------------------------------------------
    def setup(self):
        warnings.simplefilter("ignore")
        self.pool = []
        self.passed = []  # (PointCloud, snapshot) of every point set the caller handed over

    def _pass(self, arr, trimesh=False, graph=False):
        if graph:
            # any PointCloud subclass is a legal target
            from menpo.shape import PointUndirectedGraph
            n = arr.shape[0]
            pc = PointUndirectedGraph.init_from_edges(arr.copy(), np.array([[i, (i + 1) % n] for i in range(n - 1)]).reshape(-1, 2))
            self.ctx.probe("target_is_a_pointcloud_subclass")
        else:
            pc = TriMesh(arr.copy()) if trimesh else PointCloud(arr.copy())
        self.passed.append((pc, pc.points.copy(), pc.trilist.copy() if trimesh else None))
        return pc

    def _put(self, e, dst):
        if len(self.pool) < POOL:
            self.pool.append(e)
        else:
            self.pool[dst % POOL] = e

    def _probe_points(self, e):
        src = e.src
        if e.kind == "PiecewiseAffine":
            tl = e.al.source.trilist
            g = rs(e.seed ^ 0x77)
            pts = []
            for j in range(6):
                t = tl[int(g.randint(len(tl)))]
                w = g.dirichlet([1.0, 1.0, 1.0]) * 0.9 + 0.1 / 3
                pts.append(w @ e.al.source.points[t])
            return np.vstack([np.array(pts), src])
        g = rs(e.seed ^ 0x77)
        lo, hi = src.min(0), src.max(0)
        return np.vstack([g.uniform(lo, hi, size=(6, src.shape[1])), src])

    def _map(self, al, pts):
        return np.asarray(al.apply(pts.copy()))

    def _close(self, a, b, scale=None):
        a = np.asarray(a, float)
        b = np.asarray(b, float)
        if a.shape != b.shape:
            return False, float("inf")
        s = max(1.0, float(np.abs(b).max())) if scale is None else scale
        err = float(np.abs(a - b).max()) / s
        return err <= RTOL, err

    def _fresh(self, e, tgt_arr):
        srcobj = TriMesh(e.src.copy()) if (e.kind == "PiecewiseAffine" and e.opts.get("src_trimesh")) else PointCloud(e.src.copy())
        if e.kind == "PiecewiseAffine" and e.opts.get("src_trimesh"):
            srcobj = TriMesh(e.src.copy(), trilist=e.trilist.copy())
        return gen.make_alignment(e.kind, srcobj, PointCloud(tgt_arr.copy()), ctor_opts(e.opts))

    def _target_array(self, e, seed, mode):
        g = rs(seed)
        n, d = e.src.shape
        if mode == 1:
            # mirrored source (+ similarity): reflection is needed to fit it
            m = e.src.copy()
            m[:, 0] *= -1.0
            H = gen.homog_matrix("Similarity", seed, d)
            t = m @ H[:d, :d].T + H[:d, d]
            if np.linalg.det(H[:d, :d]) < 0:
                t = m @ (H[:d, :d] @ np.diag([-1.0] + [1.0] * (d - 1))).T + H[:d, d]
            t = t + g.randn(n, d) * 0.02 * np.abs(e.src).max()
            self._mirror = True
            return t
        self._mirror = False
        if mode == 2:
            return gen.general_points(seed, n, d, scale=float(np.abs(e.src).max()))
        noise = 0.0 if mode == 3 else 0.05
        return gen.target_for(e.kind, seed, e.src, noise=noise)

    # ------------------------------------------------------------------
    def step(self, op):
        k = op["op"]
        getattr(self, "_op_" + k)(op)
        self._invariants()

    def _op_new(self, op):
        ctx = self.ctx
        kind = KINDS[op["kind"] % len(KINDS)]
        d = 3 if (op["d3"] and kind not in ("ThinPlateSplines", "PiecewiseAffine")) else 2
        opts = opts_for(kind, op["bits"])
        n = op["n"]
        src = gen.general_points(op["seed"], n, d)
        if kind == "ThinPlateSplines" and opts.get("close_pair"):
            src = src.copy()
            src[1] = src[0] + np.array([0.02, 0.013])
        e = Entry()
        e.kind, e.opts, e.src, e.seed = kind, opts, src, op["seed"]
        e.sets, e.is_copy, e.since_noise, e.since_reject = 0, False, False, False
        e.trilist = None
        tgt = self._target_array(e, op["seed"] ^ 0x1234, op["mode"] % 4)
        if op.get("int"):
            # the first target given as an integer-dtype array (pixel positions); PointCloud keeps the dtype
            tgt = np.round(tgt * 3.0).astype(np.int64)
            self.ctx.probe("integer_dtype_first_target")
        elif op["seed"] % 8 == 6 and kind.startswith("Alignment"):
            # source and first target held in single precision (as loaded from a compact file); later targets are
            # doubles.  The comparison alignment is built from the same single-precision source.
            src = src.astype(np.float32)
            e.src = src
            tgt = tgt.astype(np.float32)
            self.ctx.probe("single_precision_source_and_first_target")
        trimesh = kind == "PiecewiseAffine" and opts.get("src_trimesh")
        srcobj = self._pass(src, trimesh=trimesh)
        if trimesh:
            e.trilist = srcobj.trilist.copy()
        tgtobj = self._pass(tgt)
        try:
            e.al = gen.make_alignment(kind, srcobj, tgtobj, ctor_opts(opts))
        except Exception as ex:
            ctx.fail("construct", "constructor_raised_" + kind, repr(ex))
            return
        e.tgt = tgt
        e.probe = self._probe_points(e)
        e.expect = self._map(e.al, e.probe)
        self._put(e, op["dst"])

    def _op_set_target(self, op):
        ctx = self.ctx
        if not self.pool:
            return
        e = self.pool[op["i"] % len(self.pool)]
        t = self._target_array(e, op["seed"], op["mode"] % 4)
        if op["seed"] % 7 == 0 and e.tgt.shape == t.shape and e.tgt.dtype.kind == "f":
            # dragging a few landmarks: the other target points keep exactly their previous coordinates
            keep = rs(op["seed"]).rand(t.shape[0]) < 0.6
            if keep.any() and not keep.all():
                t = np.where(keep[:, None], e.tgt, t)
                self.ctx.probe("only_some_target_points_moved")
        if op["seed"] % 7 == 3 and e.tgt.shape == t.shape and e.tgt.dtype.kind == "f":
            # a refinement step: every landmark moves, by about a millionth of the shape's extent
            t = e.tgt + 1e-6 * float(np.abs(e.tgt).max() + 1.0) * (rs(op["seed"]).rand(*e.tgt.shape) - 0.5)
            self.ctx.probe("target_moved_by_a_millionth")
        tobj = self._pass(t, graph=bool(op["seed"] % 5 == 0))
        try:
            e.al.set_target(tobj)
        except Exception as ex:
            ctx.fail("retarget_equals_fresh", "set_target_raised_" + e.kind, repr(ex))
            return
        e.tgt = t
        e.sets += 1
        self._compare_with_fresh(e)
        if e.sets >= 2:
            ctx.probe("retarget2_" + e.kind)
        if e.is_copy:
            ctx.probe("set_target_on_copy")
        if e.since_noise:
            ctx.probe("noise_before_retarget")
        if e.since_reject:
            ctx.probe("rejected_between_accepted")
        if getattr(e, "is_pinv", False):
            ctx.probe("pinv_retargeted")
        e.since_noise = e.since_reject = False
        if self._mirror and "allow_mirror" in e.opts:
            ctx.probe("mirror_needed_allow_on" if e.opts["allow_mirror"] else "mirror_needed_allow_off")
        if e.kind == "AlignmentSimilarity" and not e.opts["rotation"]:
            ctx.probe("similarity_rotation_off")
        e.expect = self._map(e.al, e.probe)

    def _op_reset_same_target(self, op):
        """The caller edits, in place, the array of the target it set last (the alignment holds it by reference,
        by documented design) and calls set_target with the same point set again - as the same object, wrapped
        in a new PointCloud around the same buffer, or as an equal-valued copy.  After that call the alignment
        must again be indistinguishable from a fresh one to those values."""
        ctx = self.ctx
        if not self.pool:
            return
        e = self.pool[op["i"] % len(self.pool)]
        cur = e.al.target
        if not np.array_equal(cur.points, e.tgt) or cur.points.dtype.kind != "f" or not cur.points.flags.writeable:
            return   # out of sync after a noise operation (target is the aligned source then)
        others = [x for x in self.pool if x is not e and (x.al.target is cur or x.al.source is cur)]
        if others or getattr(e, "is_pinv", False) or cur is e.al.source:
            return   # another alignment holds this point set (as its target or - for a pseudoinverse - its source)
        g = rs(op["seed"])
        cur.points[...] = cur.points + g.randn(*cur.points.shape) * 0.05 * np.abs(e.src).max()
        new_vals = cur.points.copy()
        for k, (pc, snap, tl) in enumerate(self.passed):
            if pc is cur or np.shares_memory(pc.points, cur.points):
                self.passed[k] = (pc, new_vals.copy(), tl)
        how = op["how"] % 3
        arg = cur if how == 0 else (PointCloud(cur.points, copy=False) if how == 1 else PointCloud(new_vals.copy()))
        if how != 0:
            self.passed.append((arg, arg.points.copy(), None))
        try:
            e.al.set_target(arg)
        except Exception as ex:
            ctx.fail("retarget_equals_fresh", "set_target_raised_" + e.kind, repr(ex))
            return
        ctx.probe("same_target_reset_after_inplace_edit")
        e.tgt = new_vals
        e.sets += 1
        self._compare_with_fresh(e)
        e.expect = self._map(e.al, e.probe)

    def _compare_with_fresh(self, e):
        ctx = self.ctx
        sig = e.kind
        fresh = self._fresh(e, e.tgt)
        a = e.al
        ok, err = self._close(self._map(a, e.probe), self._map(fresh, e.probe))
        ctx.err("map_vs_fresh", err)
        ctx.require(ok, "retarget_equals_fresh", "map_" + sig,
                    lambda: "%s opts=%r after %d set_targets: map differs from a fresh alignment by %.3g (relative)" % (e.kind, e.opts, e.sets, err))
        if hasattr(a, "h_matrix"):
            ok, err = self._close(a.h_matrix, fresh.h_matrix)
            ctx.err("h_matrix_vs_fresh", err)
            ctx.require(ok, "retarget_equals_fresh", "h_matrix_" + sig,
                        lambda: "%s opts=%r: h_matrix differs by %.3g\n%r\n%r" % (e.kind, e.opts, err, a.h_matrix, fresh.h_matrix))
        ctx.require(np.array_equal(a.target.points, e.tgt), "retarget_equals_fresh", "target_is_not_the_given_target_" + sig,
                    lambda: "target after set_target(t) is not t")
        ok, err = self._close(a.target.points, fresh.target.points)
        ctx.require(ok, "retarget_equals_fresh", "target_differs_from_fresh_" + sig,
                    lambda: "%s: retargeted.target == t but fresh.target differs from t by %.3g (relative)" % (e.kind, err))
        ok, err = self._close(a.aligned_source().points, fresh.aligned_source().points)
        ctx.require(ok, "retarget_equals_fresh", "aligned_source_" + sig, lambda: "err %.3g" % err)
        ea, ef = float(a.alignment_error()), float(fresh.alignment_error())
        scale = max(1.0, float(np.abs(e.tgt).max()))
        ctx.require(abs(ea - ef) <= 1e-8 * scale, "retarget_equals_fresh", "alignment_error_" + sig,
                    lambda: "alignment_error %r vs fresh %r" % (ea, ef))
        ctx.require(np.array_equal(a.source.points, e.src), "inputs_intact", "source_changed_" + sig)
        if e.kind == "ThinPlateSplines" and e.opts.get("close_pair"):
            other = dict(ctor_opts(e.opts))
            other["min_singular_val"] = 1e-2 if other["min_singular_val"] == 1e-4 else 1e-4
            f2 = gen.make_alignment(e.kind, PointCloud(e.src.copy()), PointCloud(e.tgt.copy()), other)
            if not self._close(self._map(f2, e.probe), self._map(fresh, e.probe))[0]:
                ctx.probe("tps_floor_matters")

    def _op_set_target_bad(self, op):
        ctx = self.ctx
        if not self.pool:
            return
        e = self.pool[op["i"] % len(self.pool)]
        n, d = e.src.shape
        mode = op["mode"] % 4
        if mode == 3:
            # a different point count AND dimensionality with the same total number of coordinates
            d2 = 5 - d
            if (n * d) % d2:
                return
            bad = gen.distinct_points(7, (n * d) // d2, d2, scale=10.0)
            name = "n_points"
            self.ctx.probe("rejected_same_size_other_shape")
        elif mode == 0:
            bad = gen.general_points(5, n + 1, d)
            name = "n_points"
        elif mode == 1:
            bad = gen.general_points(5, max(n - 1, 1), d)
            name = "n_points"
        else:
            bad = gen.general_points(5, n, 5 - d)
            name = "n_dims"
        before_map = self._map(e.al, e.probe)
        before_t = e.al.target.points.copy()
        raised = False
        try:
            e.al.set_target(PointCloud(bad))
        except Exception:
            raised = True
        ctx.require(raised, "rejects_bad_target", "accepted_wrong_" + name + "_" + e.kind,
                    lambda: "%s accepted a target with %s %r (source %r)" % (e.kind, name, bad.shape, e.src.shape))
        if raised:
            ctx.probe("rejected_" + name)
            e.since_reject = True
            ctx.require(np.array_equal(before_t, e.al.target.points), "rejects_bad_target", "target_changed_by_rejected_" + e.kind)
            ctx.require(np.array_equal(before_map, self._map(e.al, e.probe)), "rejects_bad_target", "map_changed_by_rejected_" + e.kind)

    def _op_copy(self, op):
        if not self.pool:
            return
        e = self.pool[op["i"] % len(self.pool)]
        try:
            c = e.al.copy()
        except Exception as ex:
            self.ctx.fail("copy", "copy_raised_" + e.kind, repr(ex))
            return
        n = Entry()
        n.__dict__.update(e.__dict__)
        n.al, n.is_copy = c, True
        n.tgt = e.tgt.copy()
        n.expect = e.expect.copy()
        self._put(n, op["dst"])

    def _op_noise(self, op):
        """Operations the title's "whatever happened before" covers; their own effect is
        not judged here, only that the next re-fit is unaffected."""
        if not self.pool:
            return
        e = self.pool[op["i"] % len(self.pool)]
        a = e.al
        w = op["which"] % 6
        g = rs(op["seed"])
        d = e.src.shape[1]
        try:
            if w == 0:
                v = a.as_vector()
                a.from_vector_inplace(v * (1.0 + 0.1 * g.rand(*v.shape)) + 0.01)
            elif w == 1:
                p = a.pseudoinverse()
                if e.kind.startswith("Alignment"):
                    n = Entry()
                    n.__dict__.update(e.__dict__)
                    n.al, n.is_copy, n.is_pinv = p, True, True
                    # "the same source": the inverse's source is the forward target as it is held (a single-precision
                    # point set stays one in the comparison alignment; integer pixel positions are compared as floats)
                    n.src = np.array(p.source.points) if p.source.points.dtype.kind == "f" else np.array(p.source.points, dtype=float)
                    n.tgt = np.array(p.target.points)
                    n.sets = 0
                    n.probe = self._probe_points(n)
                    n.expect = self._map(p, n.probe)
                    self._put(n, op["dst"])
            elif w == 2:
                a.apply(g.uniform(-1, 1, size=(3, d)) if e.kind != "PiecewiseAffine" else e.probe[:3].copy())
            elif w == 3:
                a.aligned_source()
                a.alignment_error()
            elif w == 4 and e.kind.startswith("Alignment"):
                fam = e.kind[len("Alignment"):]
                other = gen.homog_transform(fam, op["seed"], d)
                if op["seed"] & 1:
                    a.compose_before_inplace(other)
                else:
                    a.compose_after_inplace(other)
            elif w == 5 and hasattr(a, "as_non_alignment"):
                a.as_non_alignment()
        except Exception:
            pass
        e.since_noise = True
        try:
            e.expect = self._map(a, e.probe)
            e.tgt = np.array(a.target.points)
        except Exception:
            e.expect = None

    def _op_gpa(self, op):
        ctx = self.ctx
        d = 3 if op["d3"] % 2 else 2
        n, m = op["n"], op["m"]
        base = gen.general_points(op["seed"], n, d)
        g = rs(op["seed"] ^ 0x99)
        shapes = []
        dis = op.get("dis", 0)
        for j in range(m):
            if dis:
                # dissimilar shapes: unrelated point sets (dis == 2: of very different aspect), for which
                # the iteration may not converge within its budget
                s = g.randn(n, d) * (np.array([1.0, 8.0, 0.3][:d]) if (dis == 2 and j % 2) else 1.0) * 5.0
                shapes.append(self._pass(s))
                continue
            H = gen.homog_matrix("Similarity", int(g.randint(2 ** 31)), d)
            if np.linalg.det(H[:d, :d]) < 0 and not (op["mirror"] % 2):
                H[:d, 0] *= -1
            s = base @ H[:d, :d].T + H[:d, d] + g.randn(n, d) * 0.03 * np.abs(base).max()
            shapes.append(self._pass(s))
        mirror = bool(op["mirror"] % 2)
        try:
            gpa = GeneralizedProcrustesAnalysis(shapes, allow_mirror=mirror)
        except Exception as ex:
            ctx.fail("gpa", "gpa_raised", repr(ex))
            return
        tgt = gpa.target
        if not gpa.converged:
            ctx.probe("gpa_not_converged")
        for j, t in enumerate(gpa.transforms):
            fresh = AlignmentSimilarity(PointCloud(shapes[j].points.copy()), PointCloud(tgt.points.copy()), allow_mirror=mirror)
            ok, err = self._close(t.h_matrix, fresh.h_matrix)
            ctx.err("gpa_vs_fresh", err)
            ctx.require(ok, "gpa", "transform_is_not_alignment_to_reported_target",
                        lambda: "GPA transform %d differs from AlignmentSimilarity(source, gpa.target) by %.3g" % (j, err))
            ok, err = self._close(t.target.points, tgt.points)
            ctx.require(ok, "gpa", "transform_target_is_not_reported_target", lambda: "err %.3g" % err)
            ctx.require(np.array_equal(t.source.points, shapes[j].points), "gpa", "transform_source_is_not_input")
        ctx.probe("gpa_checked")

    def _invariants(self):
        ctx = self.ctx
        for pc, snap, tl in self.passed:
            ctx.require(np.array_equal(pc.points, snap), "inputs_intact", "passed_point_set_modified",
                        lambda: "a point set passed by the caller was modified")
            if tl is not None:
                ctx.require(np.array_equal(pc.trilist, tl), "inputs_intact", "passed_trilist_modified")
        for e in self.pool:
            if e.expect is None:
                continue
            try:
                now = self._map(e.al, e.probe)
            except Exception as ex:
                ctx.fail("independent", "apply_raised_" + e.kind, repr(ex))
                continue
            ok, err = self._close(now, e.expect)
            ctx.out(e.kind, now)
            ctx.require(ok, "independent", "map_changed_by_operation_on_another_object_" + e.kind,
                        lambda: "%s (copy=%r): map changed by %.3g without an operation on it" % (e.kind, e.is_copy, err))
        ctx.state(sorted((e.kind, tuple(sorted((k, str(v)) for k, v in e.opts.items())), min(e.sets, 3), e.is_copy)
                         for e in self.pool))


MACHINE = Retarget
