"""C09: apply() is pure - no history, aliasing or batch-size effects.

Histories of apply calls on long-lived transforms with caller-owned buffers that
are re-used, edited in place (below and above any memo tolerance) and refilled;
every call is compared with a freshly constructed transform applied to a copy of
the current input values.
"""
import warnings

import numpy as np

from ..core import Machine, rs
from .. import gen

from menpo.image import BooleanImage
from menpo.shape import PointCloud, TriMesh
from menpo.transform import (Affine, AlignmentSimilarity, Rotation, ThinPlateSplines, TransformChain,
                             Translation, UniformScale)
from menpo.transform.base import Transform
from menpo.transform.piecewiseaffine import PiecewiseAffine, TriangleContainmentError
from menpo.transform.piecewiseaffine.base import PythonPWA
from menpo.transform.rbf import R2LogR2RBF, R2LogRRBF
from menpo.transform import WithDims

KINDS = ["PiecewiseAffine", "PythonPWA", "ThinPlateSplines", "R2LogR2RBF", "R2LogRRBF",
         "Affine", "Similarity", "Rotation", "Translation", "UniformScale",
         "NonUniformScale", "Homogeneous", "ChainPWAFirst", "ChainPWALast", "WithDims",
         "AlignmentSimilarity", "AlignmentTranslation", "AlignmentUniformScale", "AlignmentRotation", "AlignmentAffine"]
RETARGETABLE = ("PiecewiseAffine", "PythonPWA", "ThinPlateSplines", "AlignmentSimilarity", "AlignmentTranslation",
                "AlignmentUniformScale", "AlignmentRotation", "AlignmentAffine")
UPDATABLE = ("Affine", "Similarity", "Translation", "UniformScale", "NonUniformScale", "Homogeneous")
PWA_OWNERS = ("PiecewiseAffine", "PythonPWA")
POOL_T, POOL_B = 4, 5


def layout(seed, k):
    """Jittered k x k grid: well-shaped Delaunay triangles, scale ~5 per cell."""
    g = rs(seed)
    ys, xs = np.meshgrid(np.arange(k), np.arange(k), indexing="ij")
    p = np.stack([ys.ravel(), xs.ravel()], 1).astype(float) * 5.0
    return p + g.uniform(-1.0, 1.0, size=p.shape)


class ApplyHistory(Machine):
    PROPERTY = "C09"
    NAME = "apply_history"
    BUDGET = {"quick": {"runs": 80000, "wall": 75, "digests": 24, "block": 100},
              "thorough": {"runs": 600000, "wall": 840, "digests": 128, "block": 400}}
    LEVEL = {"quick": "exploration", "thorough": "exploration"}
    RULE = ("seeded histories of apply calls (arrays, shapes, every batch size from 1 to beyond n) on a pool "
            "of long-lived transforms (cached and uncached piecewise affine, TPS, RBFs, homogeneous family, "
            "chains containing a PWA, WithDims, alignment), interleaved with in-place edits (relative 1e-12 .. "
            "1e-3) and refills of caller-owned buffers, equal values in different arrays, set_target and copy; "
            "mixes of in-domain and out-of-domain points; non-trivial = at least one clause evaluated; "
            "distinct = distinct op-kind sequences")
    STATE_MEASURE = ("per transform (class, memo empty/warm/stale-by-edit), per buffer (edited since last passed, "
                     "domain mix)")
    REAL = ["Transform.apply / _apply_batched of every listed class, CachedPWA memo, TriangleContainmentError, "
            "BooleanImage.constrain_to_pointcloud"]
    STUB = []
    ASSUMPTIONS = ["expected value = freshly constructed transform of the same parameters on a copy of the input",
                   "failure mask of a TransformChain that merely contains a PWA is not judged under batching "
                   "(generic batching; DESIGN 5.4)",
                   "points are kept a margin away from triangle edges"]
    REQUIRED_PROBES = ("memo_hit_equal_values_other_array", "memo_same_array_after_small_edit",
                       "memo_same_array_after_refill", "same_shape_different_values",
                       "batch_middle_fails", "batch_gt_n", "batch_not_dividing", "exception_then_success",
                       "mask_checked", "apply_shape", "constrain_batched", "set_target_between_applies",
                       "out_of_domain_mix", "apply_on_copy", "integer_dtype_buffer", "non_contiguous_view_input", "pseudoinverse_of_used_transform",
                       "parameters_updated_in_place_between_applies", "earlier_result_still_valid", "caller_edited_an_earlier_result_in_place", "current_target_edited_in_place_and_set_again", "derived_non_alignment_changed_in_place", "identity_valued_transform",
                       "source_mesh_with_overlapping_triangles", "target_point_set_overwritten_after_set_target",
                       "pseudoinverse_vector_asked_between_applies", "earlier_inverse_retargeted_by_the_caller", "parameter_vector_overwritten_after_update", "pseudoinverse_vector_of_singular_parameters_raised",
                       "composition_result_discarded_between_applies")

    @classmethod
    def swarm(cls, rng, tier):
        kinds = rng.sample(range(len(KINDS)), rng.randint(1, 4))
        if rng.random() < 0.6 and 0 not in kinds:
            kinds.append(0)
        return {"steps": rng.randint(4, 20 if tier == "quick" else 50), "kinds": kinds,
                "layout": rng.getrandbits(32), "k": rng.choice([2, 3, 3])}

    @classmethod
    def draw(cls, rng, cfg):
        r = rng.random()
        if r < 0.12:
            return {"op": "newt", "kind": rng.choice(cfg["kinds"]), "seed": rng.getrandbits(32), "dst": rng.randrange(64)}
        if r < 0.26:
            return {"op": "newbuf", "seed": rng.getrandbits(32), "n": rng.randrange(1, 13),
                    "mix": rng.choice([0, 0, 0, 1, 1, 2]), "dst": rng.randrange(64), "int": int(rng.random() < 0.25)}
        if r < 0.62:
            return {"op": "apply", "t": rng.randrange(64), "b": rng.randrange(64),
                    "batch": rng.choice([0, 0, 1, 2, 3, 4, 5, 7, 11, 13, 14]),
                    "how": rng.choice([0, 0, 0, 1, 2, 3]), "same": rng.randrange(2), "scr": rng.randrange(3)}
        if r < 0.76:
            return {"op": "edit", "b": rng.randrange(64), "exp": rng.randrange(3, 13), "seed": rng.getrandbits(16),
                    "one": rng.randrange(2)}
        if r < 0.84:
            return {"op": "refill", "b": rng.randrange(64), "seed": rng.getrandbits(32), "mix": rng.choice([0, 0, 1, 2])}
        if r < 0.90:
            return {"op": "set_target", "t": rng.randrange(64), "seed": rng.getrandbits(32)}
        if r < 0.905:
            return {"op": "compose_noise", "t": rng.randrange(64), "seed": rng.getrandbits(32)}
        if r < 0.92:
            return {"op": "update", "t": rng.randrange(64), "seed": rng.getrandbits(32)}
        if r < 0.935:
            return {"op": "copy", "t": rng.randrange(64), "dst": rng.randrange(64)}
        if r < 0.96:
            return {"op": "pinv", "t": rng.randrange(64), "dst": rng.randrange(64)}
        return {"op": "constrain", "seed": rng.getrandbits(32), "batch": rng.randrange(1, 60)}

    # ------------------------------------------------------------------
    def setup(self):
        warnings.simplefilter("ignore")
        self.S = layout(self.cfg["layout"], self.cfg["k"])
        self.tri = TriMesh(self.S.copy()).trilist.copy()
        self.ts = []   # dict(t=transform, kind, recipe, memo)
        self.bufs = []  # dict(a=array, edited, mix)
        self._last_pair = None
        self.shared_S = None
        self._op_newt({"kind": self.cfg["kinds"][-1], "seed": self.cfg["layout"] ^ 5, "dst": 0})
        self._op_newbuf({"seed": self.cfg["layout"] ^ 9, "n": 1 + self.cfg["layout"] % 9, "mix": 0, "dst": 0})

    # recipes -> transforms (fresh construction is the oracle)
    def _target(self, seed):
        g = rs(seed)
        return self.S * g.uniform(0.8, 1.3) + g.uniform(-1.5, 1.5, size=self.S.shape) * 0.6 + g.uniform(-3, 3, size=2)

    def _build(self, recipe, shared_source=None):
        """The oracle builds from private copies; the long-lived transforms of a history are all built on ONE
        source PointCloud object (`shared_source`), the way a caller keeps one template shape."""
        if len(recipe) == 4:
            # ("inverse of", kind, seed, tseed): a fresh transform, inverted before it was ever applied
            return self._build(recipe[1:], shared_source).pseudoinverse()
        kind, seed, tseed = recipe
        S = PointCloud(self.S.copy()) if shared_source is None else shared_source
        if seed % 4 == 0 and kind in ("PiecewiseAffine", "PythonPWA", "ChainPWAFirst", "ChainPWALast"):
            # "no limitations on the nature of the triangle list are imposed": the first grid cell is covered by both
            # of its diagonal splits, so points in it lie in two triangles that map them differently
            k_ = self.cfg["k"]
            extra = np.array([[0, 1, k_ + 1], [0, k_ + 1, k_], [1, k_ + 1, k_], [0, 1, k_]])
            S = TriMesh(self.S.copy(), trilist=np.vstack([self.tri, extra]))
            self.ctx.probe("source_mesh_with_overlapping_triangles")
        if kind in ("PiecewiseAffine", "PythonPWA"):
            T = PointCloud(self._target(tseed))
            return (PiecewiseAffine if kind == "PiecewiseAffine" else PythonPWA)(S, T)
        if kind == "ThinPlateSplines":
            if seed & 1:
                return ThinPlateSplines(S, PointCloud(self._target(tseed)), kernel=R2LogRRBF(S.points.copy()))
            return ThinPlateSplines(S, PointCloud(self._target(tseed)))
        if kind == "R2LogR2RBF":
            return R2LogR2RBF(self.S.copy())
        if kind == "R2LogRRBF":
            return R2LogRRBF(self.S.copy())
        if kind == "ChainPWAFirst":
            return TransformChain([PiecewiseAffine(S, PointCloud(self._target(tseed))),
                                   gen.homog_transform("Affine", seed, 2)])
        if kind == "ChainPWALast":
            return TransformChain([UniformScale(1.0 + (seed % 7) * 1e-4, 2),
                                   PiecewiseAffine(S, PointCloud(self._target(tseed)))])
        if kind == "WithDims":
            return WithDims([1, 0] if seed & 1 else [0])
        if kind.startswith("Alignment"):
            return gen.make_alignment(kind, S, PointCloud(self._target(tseed)), {})
        if seed % 8 == 0 and kind in ("Translation", "UniformScale", "Rotation", "Affine"):
            # a transform that happens to do nothing is a transform like any other: its results are new arrays
            self.ctx.probe("identity_valued_transform")
            return {"Translation": lambda: Translation(np.zeros(2)), "UniformScale": lambda: UniformScale(1.0, 2),
                    "Rotation": lambda: Rotation(np.eye(2)), "Affine": lambda: Affine(np.eye(3))}[kind]()
        return gen.homog_transform(kind, seed, 2)

    def _inside(self, g, n):
        pts = []
        for _ in range(n):
            t = self.tri[int(g.randint(len(self.tri)))]
            w = g.dirichlet([1.0, 1.0, 1.0]) * 0.85 + 0.05
            pts.append(w @ self.S[t])
        return np.array(pts).reshape(n, 2)

    def _outside(self, g, n):
        lo, hi = self.S.min(0), self.S.max(0)
        side = g.randint(0, 4, size=n)
        p = g.uniform(lo, hi, size=(n, 2))
        off = g.uniform(1.0, 4.0, size=n)
        for j in range(n):
            if side[j] == 0:
                p[j, 0] = lo[0] - off[j]
            elif side[j] == 1:
                p[j, 0] = hi[0] + off[j]
            elif side[j] == 2:
                p[j, 1] = lo[1] - off[j]
            else:
                p[j, 1] = hi[1] + off[j]
        return p

    def _margin(self, pts):
        """For each point the largest (over triangles) smallest barycentric coordinate: > 0 means strictly inside."""
        best = np.full(len(pts), -np.inf)
        for t in self.tri:
            a, b, c = self.S[t]
            M = np.array([[b[0] - a[0], c[0] - a[0]], [b[1] - a[1], c[1] - a[1]]])
            uv = np.linalg.solve(M, (pts - a).T).T
            lam = np.column_stack([1 - uv.sum(1), uv[:, 0], uv[:, 1]])
            best = np.maximum(best, lam.min(1))
        return best

    def _int_values(self, seed, n, mix):
        """Integer-dtype coordinates (pixel indices): lattice points clearly inside / clearly outside."""
        g = rs(seed)
        lo, hi = np.floor(self.S.min(0)).astype(int), np.ceil(self.S.max(0)).astype(int)
        ys, xs = np.meshgrid(np.arange(lo[0] - 4, hi[0] + 5), np.arange(lo[1] - 4, hi[1] + 5), indexing="ij")
        cand = np.stack([ys.ravel(), xs.ravel()], 1)
        mg = self._margin(cand.astype(float))
        inside = cand[mg > 0.05]
        box_out = (cand[:, 0] < lo[0] - 1) | (cand[:, 0] > hi[0] + 1) | (cand[:, 1] < lo[1] - 1) | (cand[:, 1] > hi[1] + 1)
        outside = cand[box_out]
        if len(inside) == 0:
            return None
        p = inside[g.randint(len(inside), size=n)]
        if mix == 2:
            p = outside[g.randint(len(outside), size=n)]
        elif mix == 1:
            m = g.rand(n) < 0.35
            if not m.any():
                m[int(g.randint(n))] = True
            p = p.copy()
            p[m] = outside[g.randint(len(outside), size=int(m.sum()))]
        return np.ascontiguousarray(p, dtype=np.int64), mix

    def _values(self, seed, n, mix):
        g = rs(seed)
        p = self._inside(g, n)
        if mix == 2:
            return self._outside(g, n), 2
        if mix == 1 and n >= 1:
            m = g.rand(n) < 0.35
            if not m.any():
                m[int(g.randint(n))] = True
            p[m] = self._outside(g, int(m.sum()))
            return p, 1
        return p, 0

    # ------------------------------------------------------------------
    def step(self, op):
        getattr(self, "_op_" + op["op"])(op)
        self.ctx.state(sorted((t["kind"], t["memo"]) for t in self.ts),
                       sorted((str(b["edited"]), b["mix"]) for b in self.bufs))

    def _op_newt(self, op):
        kind = KINDS[op["kind"] % len(KINDS)]
        recipe = (kind, op["seed"], op["seed"] ^ 0xABC)
        if self.shared_S is None:
            self.shared_S = PointCloud(self.S.copy())
        elif kind in ("ThinPlateSplines", "PiecewiseAffine", "PythonPWA", "ChainPWAFirst", "ChainPWALast") or kind.startswith("Alignment"):
            self.ctx.probe("several_transforms_built_on_one_source_object")
        e = {"t": self._build(recipe, self.shared_S), "kind": kind, "recipe": recipe, "memo": "empty", "last": None,
             "raised": False, "copy": False}
        if len(self.ts) < POOL_T:
            self.ts.append(e)
        else:
            self.ts[op["dst"] % POOL_T] = e

    def _op_newbuf(self, op):
        r = self._int_values(op["seed"], op["n"], op["mix"]) if op.get("int") else None
        if r is not None:
            self.ctx.probe("integer_dtype_buffer")
        v, mix = r if r is not None else self._values(op["seed"], op["n"], op["mix"])
        e = {"a": v, "edited": False, "mix": mix}
        if len(self.bufs) < POOL_B:
            self.bufs.append(e)
        else:
            self.bufs[op["dst"] % POOL_B] = e

    def _op_edit(self, op):
        if not self.bufs:
            return
        b = self.bufs[op["b"] % len(self.bufs)]
        g = rs(op["seed"])
        rel = 10.0 ** (-op["exp"])
        a = b["a"]
        if a.dtype.kind == "i":
            return   # integer buffers are only refilled, a sub-unit edit has no meaning for them
        if op["one"] and a.shape[0] > 0:
            j = int(g.randint(a.shape[0]))
            a[j] += rel * (1.0 + np.abs(a[j])) * np.where(g.rand(2) < 0.5, 1.0, -1.0)
        else:
            a += rel * (1.0 + np.abs(a)) * np.where(g.rand(*a.shape) < 0.5, 1.0, -1.0)
        b["edited"] = "small"

    def _op_refill(self, op):
        if not self.bufs:
            return
        b = self.bufs[op["b"] % len(self.bufs)]
        if b["a"].dtype.kind == "i":
            r = self._int_values(op["seed"], b["a"].shape[0], op["mix"])
            if r is None:
                return
            v, mix = r
        else:
            v, mix = self._values(op["seed"], b["a"].shape[0], op["mix"])
        b["a"][:] = v   # same array object, new values
        b["edited"], b["mix"] = "refill", mix

    def _op_set_target(self, op):
        if not self.ts:
            return
        e = self.ts[op["t"] % len(self.ts)]
        if e["kind"] not in RETARGETABLE or len(e["recipe"]) == 4 or e.get("vec") is not None:
            return
        kind, seed, _ = e["recipe"]
        e["recipe"] = (kind, seed, op["seed"])
        if op["seed"] % 4 == 1:
            # the caller moves the landmarks of the point set that already is the target and sets it again
            tgt = e["t"].target
            tgt.points[...] = self._target(op["seed"])
            e["t"].set_target(tgt)
            e["target_scribbled"] = False
            self.ctx.probe("current_target_edited_in_place_and_set_again")
        else:
            pc_ = PointCloud(self._target(op["seed"]))
            e["t"].set_target(pc_)
            e["target_scribbled"] = False
            if op["seed"] % 4 == 2:
                # the caller goes on using the point set it has just handed over; the warp was fitted to what the
                # point set was at the moment of set_target
                pc_.points[...] = pc_.points * 0.5 + 11.0
                e["target_scribbled"] = True
                self.ctx.probe("target_point_set_overwritten_after_set_target")
        e["retargeted"] = True

    def _op_compose_noise(self, op):
        """A non-in-place composition whose result is thrown away: the receiver must be unaffected (judged by the
        next apply against a fresh transform)."""
        if not self.ts:
            return
        e = self.ts[op["t"] % len(self.ts)]
        other = gen.homog_transform(["Translation", "Affine", "UniformScale"][op["seed"] % 3], op["seed"], 2)
        try:
            if op["seed"] & 8:
                e["t"].compose_before(other)
            else:
                e["t"].compose_after(other)
            if op["seed"] & 16:
                c = e["t"].copy()
                if hasattr(c, "compose_before_inplace") and isinstance(c, TransformChain):
                    c.compose_before_inplace(other)
            if op["seed"] & 128 and hasattr(e["t"], "as_non_alignment"):
                # the plain transform derived from an alignment is the caller's to change
                n_ = e["t"].as_non_alignment()
                v_ = np.array(n_.as_vector(), dtype=float)
                if op["seed"] & 256:
                    n_.from_vector_inplace(v_ * 1.3 + 0.1)
                else:
                    n_.compose_before_inplace(other)
                self.ctx.probe("derived_non_alignment_changed_in_place")
            self.ctx.probe("composition_result_discarded_between_applies")
        except Exception:
            pass
        if op["seed"] & 32 and hasattr(e["t"], "pseudoinverse_vector") and e.get("vec") is None:
            # the optimiser's question "what would the inverse of THESE parameters be" - also for parameters that
            # have no inverse - is a question; the transform that is asked stays what it is
            try:
                v = np.array(e["t"].as_vector(), dtype=float)
                if (op["seed"] >> 6) % 2:
                    z = np.zeros_like(v)
                    if v.size == 6:
                        z[0] = z[3] = -1.0
                    elif v.size == 4:
                        z[0] = -1.0
                    elif v.size != 9:
                        z = v * 1.5 + 0.25
                    v = z
                else:
                    v = v * 1.25 + 0.125
                self.ctx.probe("pseudoinverse_vector_asked_between_applies")
                import warnings as _w
                with _w.catch_warnings():
                    _w.simplefilter("ignore")
                    e["t"].pseudoinverse_vector(v)
            except Exception:
                self.ctx.probe("pseudoinverse_vector_of_singular_parameters_raised")

    def _op_update(self, op):
        """In-place parameter update (from_vector_inplace) of a long-lived, already applied transform."""
        if not self.ts:
            return
        e = self.ts[op["t"] % len(self.ts)]
        if e["kind"] not in UPDATABLE or len(e["recipe"]) == 4:
            return
        g = rs(op["seed"])
        try:
            v = np.array(e["t"].as_vector(), dtype=float)
            v = v * (1.0 + 0.2 * g.rand(*v.shape)) + 0.05 * g.rand(*v.shape)
            import warnings as _w
            with _w.catch_warnings():
                _w.simplefilter("ignore")
                if op["seed"] & 64:
                    e["t"] = e["t"].from_vector(v)     # the rebuilt transform replaces the old one in the caller's hands
                else:
                    e["t"].from_vector_inplace(v)
        except Exception:
            return
        e["vec"] = v.tolist()
        if op["seed"] & 128 and isinstance(v, np.ndarray) and v.ndim >= 1:
            # the caller reuses its parameter buffer for something else: the transform keeps the parameters it was given
            v[:] = -7.5
            self.ctx.probe("parameter_vector_overwritten_after_update")
        self.ctx.probe("parameters_updated_in_place_between_applies")

    def _op_pinv(self, op):
        """The pseudoinverse of a long-lived (already applied) transform joins the pool; it must behave like the
        pseudoinverse of a fresh transform."""
        if not self.ts:
            return
        e = self.ts[op["t"] % len(self.ts)]
        if len(e["recipe"]) == 4 or e.get("vec") is not None or not hasattr(e["t"], "pseudoinverse") or e["kind"].startswith("Chain") or e["kind"] in ("WithDims", "R2LogR2RBF", "R2LogRRBF"):
            return
        if e.get("target_scribbled"):
            return   # (the inverse is built from the target object, whose coordinates the caller has overwritten since)
        try:
            if op["dst"] % 3 == 1 and e["kind"] in RETARGETABLE:
                # an inverse the caller obtained earlier and re-targeted for its own purposes is the caller's own
                # object: the transform, and the inverses it hands out later, know nothing of it
                inv0 = e["t"].pseudoinverse()
                inv0.set_target(PointCloud(np.asarray(inv0.target.points) * 0.9 + 0.3))
                self.ctx.probe("earlier_inverse_retargeted_by_the_caller")
            inv = e["t"].pseudoinverse()
        except Exception:
            return   # C04's business
        n = {"t": inv, "kind": e["kind"], "recipe": ("inv",) + tuple(e["recipe"]), "memo": "empty", "last": None,
             "raised": False, "copy": False, "inverse": True}
        self.ctx.probe("pseudoinverse_of_used_transform")
        if len(self.ts) < POOL_T:
            self.ts.append(n)
        else:
            self.ts[op["dst"] % POOL_T] = n

    def _op_copy(self, op):
        if not self.ts:
            return
        e = self.ts[op["t"] % len(self.ts)]
        n = dict(e)
        n["t"] = e["t"].copy()
        n["copy"] = True
        if len(self.ts) < POOL_T:
            self.ts.append(n)
        else:
            self.ts[op["dst"] % POOL_T] = n

    def _reference_mask(self, recipe, x):
        ref = self._build(("PythonPWA", recipe[1], recipe[2]))
        out = np.zeros(x.shape[0], dtype=bool)
        for j in range(x.shape[0]):
            try:
                ref.apply(x[j:j + 1].copy())
            except TriangleContainmentError:
                out[j] = True
        return out

    def _op_apply(self, op):
        ctx = self.ctx
        if not self.ts or not self.bufs:
            return
        ti, bi = op["t"] % len(self.ts), op["b"] % len(self.bufs)
        if op.get("same") and self._last_pair is not None:
            ti, bi = self._last_pair[0] % len(self.ts), self._last_pair[1] % len(self.bufs)
        self._last_pair = (ti, bi)
        e = self.ts[ti]
        b = self.bufs[bi]
        kind = e["kind"]
        a = b["a"]
        n = a.shape[0]
        batch = op["batch"] or None
        how = op["how"]
        if how == 2:
            arg = a.copy()           # equal values, different array object
        elif how == 3:
            # equal values seen through a non-contiguous view of a larger buffer the caller owns
            big = np.empty((2 * n + 1, a.shape[1] + 1), dtype=a.dtype)
            big[...] = 7
            big[1::2, 1:][:n] = a
            arg = big[1::2, 1:][:n]
            ctx.probe("non_contiguous_view_input")
        else:
            arg = a
        snapshot = arg.copy()
        # oracle: fresh transform, copy of the values, no batching
        fresh = self._build(e["recipe"])
        if e.get("vec") is not None:
            fresh = fresh.from_vector(np.array(e["vec"]))
        exp, exp_exc = None, None
        try:
            exp = np.asarray(fresh.apply(snapshot.copy()))
        except TriangleContainmentError as ex:
            exp_exc = ex
        # probes about the memo state
        if kind == "PiecewiseAffine" or kind.startswith("ChainPWA"):
            if e["last"] is not None:
                if how == 2 and e["last"][0] is a and not b["edited"]:
                    ctx.probe("memo_hit_equal_values_other_array")
                if e["last"][0] is a and b["edited"] == "small":
                    ctx.probe("memo_same_array_after_small_edit")
                if e["last"][0] is a and b["edited"] == "refill":
                    ctx.probe("memo_same_array_after_refill")
                if e["last"][0] is not a and e["last"][1] == a.shape:
                    ctx.probe("same_shape_different_values")
        if batch is not None:
            if batch > n:
                ctx.probe("batch_gt_n")
            elif n % batch:
                ctx.probe("batch_not_dividing")
        if b["mix"] == 1:
            ctx.probe("out_of_domain_mix")
        if e.get("retargeted"):
            ctx.probe("set_target_between_applies")
            e["retargeted"] = False
        if e["copy"]:
            ctx.probe("apply_on_copy")
        held = e.get("held")
        if held is not None and held[0].flags.writeable and op.get("scr", 0) % 3 == 1:
            # what apply() returned belongs to the caller, who goes on computing in it
            held[0][...] = held[0] * 0.5 + 7.25
            held[1] = held[0].copy()      # (the list is shared with copies of this entry)
            ctx.probe("caller_edited_an_earlier_result_in_place")
        got, got_exc = None, None
        try:
            if how == 1:
                pc = PointCloud(arg, copy=False)
                res = e["t"].apply(pc, batch_size=batch)
                got = np.asarray(res.points)
                ctx.probe("apply_shape")
                ctx.require(isinstance(res, PointCloud), "apply_pure", "shape_result_class_" + kind)
            else:
                got = np.asarray(e["t"].apply(arg, batch_size=batch))
        except TriangleContainmentError as ex:
            got_exc = ex
        except Exception as ex:
            ctx.fail("apply_pure", "unexpected_exception_" + kind, "%s.apply raised %r (batch=%r, n=%d)" % (kind, ex, batch, n))
            return
        ctx.out("apply", kind, batch, how, None if got is None else got, got_exc is not None)
        # what an earlier call returned must not be rewritten by this one (no shared work arrays)
        if held is not None:
            ctx.require(np.array_equal(held[0], held[1]), "apply_pure", "earlier_result_overwritten_by_later_call_" + kind,
                        lambda: "the array returned by an earlier %s.apply() changed during a later call" % kind)
            ctx.require(got is None or not np.shares_memory(got, held[0]), "apply_pure", "two_results_share_one_buffer_" + kind,
                        lambda: "%s.apply() returned memory that an earlier call had already returned" % kind)
            ctx.probe("earlier_result_still_valid")
        if got is not None:
            # a result that IS (a view of) the caller's input would change whenever the caller goes on using either
            ctx.require(not (np.shares_memory(got, a) or np.shares_memory(got, arg)), "apply_pure", "result_shares_memory_with_input_" + kind,
                        lambda: "%s.apply() returned memory of the array it was given" % kind)
        e["held"] = None if (got is None or np.shares_memory(got, a) or np.shares_memory(got, arg)) else [got, got.copy()]
        ctx.require(np.array_equal(arg, snapshot), "input_intact", "apply_modified_input_" + kind,
                    lambda: "%s.apply(batch=%r) modified the array it was given" % (kind, batch))
        e["last"] = (a, a.shape)
        b["edited"] = False
        e["memo"] = "warm"
        if (exp_exc is None) != (got_exc is None):
            ctx.fail("apply_pure", "domain_error_mismatch_" + kind,
                     "%s: fresh transform %s but long-lived transform %s (batch=%r n=%d)"
                     % (kind, "raised" if exp_exc else "returned", "raised" if got_exc else "returned", batch, n))
            return
        if got_exc is not None:
            if e["raised"] is False:
                e["raised"] = True
            if kind in PWA_OWNERS and len(e["recipe"]) == 3:
                mask = np.asarray(got_exc.points_outside_source_domain)
                ref = self._reference_mask(e["recipe"], snapshot)
                ctx.probe("mask_checked")
                ctx.require(mask.shape == (n,), "failure_mask", "length_" + kind,
                            lambda: "%s.apply(%d points, batch_size=%r): points_outside_source_domain has shape %r" % (kind, n, batch, mask.shape))
                if mask.shape == (n,):
                    ctx.require(np.array_equal(mask.astype(bool), ref), "failure_mask", "content_" + kind,
                                lambda: "mask %r expected %r (batch=%r)" % (mask.astype(int).tolist(), ref.astype(int).tolist(), batch))
                    if batch is not None and n > 2 * batch and ref[batch:2 * batch].any() and not ref[:batch].any() and not ref[2 * batch:].any():
                        ctx.probe("batch_middle_fails")
            return
        if e["raised"]:
            ctx.probe("exception_then_success")
            e["raised"] = None
        ok = got.shape == exp.shape
        err = float("inf")
        if ok:
            err = float(np.abs(got - exp).max() / max(1.0, np.abs(exp).max())) if exp.size else 0.0
            ctx.err("apply_vs_fresh", err)
            ok = err <= 1e-10
        ctx.require(ok, "apply_pure", "result_differs_from_fresh_" + kind,
                    lambda: "%s.apply(batch=%r, how=%d) differs from a fresh transform on the same values by %.3g (relative); n=%d" % (kind, batch, how, err, n))

    def _op_constrain(self, op):
        ctx = self.ctx
        g = rs(op["seed"])
        h, w = int(g.randint(5, 9)), int(g.randint(5, 9))
        m = int(g.randint(3, 7))
        pts = g.uniform([0.5, 0.5], [h - 1.5, w - 1.5], size=(m, 2))
        pts += np.arange(m)[:, None] * 0.013
        img = BooleanImage.init_blank((h, w))
        pc = PointCloud(pts)
        try:
            ref = img.constrain_to_pointcloud(pc)
        except Exception as ex:
            return  # degenerate triangulation: outside this property
        try:
            got = img.constrain_to_pointcloud(pc, batch_size=op["batch"])
        except Exception as ex:
            ctx.fail("batch", "constrain_to_pointcloud_batched_raised",
                     "image %dx%d, %d points, batch_size=%d: %r" % (h, w, m, op["batch"], ex))
            return
        ctx.probe("constrain_batched")
        ctx.require(np.array_equal(ref.mask, got.mask), "batch", "constrain_to_pointcloud_batched_differs",
                    lambda: "batch_size=%d gives a different mask" % op["batch"])
        ctx.require(np.array_equal(pc.points, pts), "input_intact", "constrain_modified_pointcloud")


MACHINE = ApplyHistory
