"""C15: labelled selection is exact and deterministic across process hash seeds.

PYTHONHASHSEED is the controlled nondeterminism source: the same seeded workload
(label-operation histories and labeller calls) is executed in fresh interpreters
under several hash seeds; each interpreter checks every step against a reference
label model, and the per-history outcome logs must be byte-identical across
interpreters (runner: CROSS_HASHSEEDS).
"""
import re
import warnings
from collections import OrderedDict

import numpy as np

from ..core import Machine, rs
from .. import gen, walker

import menpo.landmark as ML
from menpo.landmark import LabellingError
from menpo.landmark import labeller as labeller_via_manager
from menpo.shape import LabelledPointUndirectedGraph, PointCloud, PointUndirectedGraph, TriMesh

NAMES = ["a", "jaw", "left_eye", "øye", "眉毛", "nose_bridge_long_label_name", "Ωmega", "b2",
         "mouth", "right-eye", "x" * 40, "é", "chin", "Z", "left_eyebrow", "\U0001F600",
         "all", "", "None"]      # names that mean something elsewhere in menpo are names like any other here
POOL = 4

LABELLERS = sorted(n for n in dir(ML) if callable(getattr(ML, n)) and hasattr(getattr(ML, n), "group_label")
                   and not n.startswith("bounding_box"))


def expected_size(name):
    m = re.search(r"_(\d+)(?:_mirrored)?_to_", name)
    return int(m.group(1))


def edges_of(g):
    A = g.adjacency_matrix
    A = A.toarray() if hasattr(A, "toarray") else np.asarray(A)
    return sorted({(int(min(i, j)), int(max(i, j))) for i, j in zip(*np.nonzero(A))})


def _label_points(G, nm):
    """Points under one label; a label that covers no point cannot be selected (menpo has no graph without
    vertices and says so), which is read as 'no points'."""
    try:
        return np.asarray(G.get_label(nm).points)
    except ValueError as ex:
        if "at least one vertex" in str(ex):
            return np.zeros((0, G.points.shape[1]))
        raise


class Model(object):
    def __init__(self, points, edges, labels):
        self.points = points            # ndarray
        self.edges = sorted(edges)      # list of (i<j)
        self.labels = labels            # list of (name, tuple(sorted indices))

    def names(self):
        return [n for n, _ in self.labels]

    def select(self, keep_names):
        keep = [(n, ix) for n, ix in self.labels if n in keep_names]
        idx = sorted(set(i for _, ix in keep for i in ix))
        pos = {old: new for new, old in enumerate(idx)}
        edges = [(pos[a], pos[b]) for a, b in self.edges if a in pos and b in pos]
        labels = [(n, tuple(pos[i] for i in ix)) for n, ix in keep]
        return Model(self.points[idx], edges, labels)


class Labels(Machine):
    PROPERTY = "C15"
    NAME = "labels_hashseed"
    BUDGET = {"quick": {"runs": 6000, "wall": 75, "digests": 6000, "block": 50, "hashseeds": [1, 2, 424242]},
              "thorough": {"runs": 60000, "wall": 840, "digests": 60000, "block": 200,
                           "hashseeds": [1, 2, 3, 4, 5, 6, 7, 8, 9, 10, 11, 12, 13, 14, 4294967295]}}
    CROSS_HASHSEEDS = True
    LEVEL = {"quick": "exploration", "thorough": "exploration"}
    RULE = ("seeded histories of label operations (with_labels, without_labels, get_label, add_label with new and "
            "existing names, remove_label legal and illegal, labels, copy, chained selections) on labelled graphs "
            "with 2-6 overlapping ASCII / non-ASCII labels, plus calls of all 33 index-based labellers on arrays, "
            "point clouds, labelled graphs and through a landmark manager (right and wrong sizes, 2D/3D); every "
            "history is executed under PYTHONHASHSEED=0 with a reference model and re-executed in fresh "
            "interpreters under the other hash seeds, outcome logs compared; non-trivial = at least one clause "
            "evaluated; distinct = distinct op-kind sequences")
    STATE_MEASURE = "(number of labels, overlap class, last operation kind) per graph; (labeller, input form, right/wrong size)"
    REAL = ["menpo.shape.LabelledPointUndirectedGraph", "all labellers exported by menpo.landmark (33 index-based)",
            "menpo.landmark.labeller", "CPython string hashing under each PYTHONHASHSEED (fresh interpreters)"]
    STUB = []
    ASSUMPTIONS = ["with_labels is only called with labels in their original relative order",
                   "selections always keep at least one label", "points are pairwise distinct (index recovery by equality)",
                   "the two bounding-box labellers are outside this clause"]
    REQUIRED_PROBES = ("without_labels_ge3_remaining", "with_labels", "get_label", "add_label_new", "add_label_existing",
                       "remove_label_legal", "remove_label_illegal", "chained_selection", "non_ascii_label",
                       "labeller_array", "labeller_pointcloud", "labeller_labelled_graph", "labeller_wrong_size",
                       "labeller_via_manager", "labeller_3d", "labeller_commutes_checked",
                       "caller_reuses_constructor_buffers", "with_labels_in_other_order", "selection_of_nothing_refused", "with_labels_naming_a_label_twice", "uncovered_point_refused_at_construction", "group_with_an_empty_label_kept",
                       "add_label_with_empty_index_set", "labeller_given_a_column_major_array", "add_label_with_indices_counted_from_the_end", "graph_with_self_loop") + tuple("ran_" + n for n in LABELLERS)

    @classmethod
    def swarm(cls, rng, tier):
        return {"steps": rng.randint(3, 14 if tier == "quick" else 30), "mix": rng.choice(["labels", "labels", "labellers", "both"]),
                "d": rng.choice([2, 2, 3])}

    @classmethod
    def draw(cls, rng, cfg):
        mix = cfg["mix"]
        r = rng.random()
        if mix == "labellers" or (mix == "both" and r < 0.4):
            return {"op": "labeller", "which": rng.randrange(len(LABELLERS)), "form": rng.randrange(4),
                    "seed": rng.getrandbits(32), "wrong": rng.choice([0, 0, 0, 1, 2]), "d3": rng.randrange(3)}
        r = rng.random()
        if r < 0.18:
            return {"op": "new", "seed": rng.getrandbits(32), "n": rng.randrange(3, 11), "nl": rng.randrange(2, 7),
                    "how": rng.randrange(3), "dst": rng.randrange(16)}
        k = rng.choice(["with", "without", "without", "get", "add", "remove", "copy", "labels"])
        return {"op": k, "i": rng.randrange(16), "bits": rng.getrandbits(8), "k": rng.randrange(16),
                "seed": rng.getrandbits(16), "dst": rng.randrange(16), "rec": rng.randrange(2)}

    # ------------------------------------------------------------------
    def setup(self):
        warnings.simplefilter("ignore")
        self.pool = []   # (graph, Model)
        self._last = None
        self.d = self.cfg["d"]

    def _put(self, g, m, dst):
        if len(self.pool) < POOL:
            self.pool.append((g, m))
            self._last = len(self.pool) - 1
        else:
            self.pool[dst % POOL] = (g, m)
            self._last = dst % POOL

    def _pick(self, op):
        if op.get("rec") and self._last is not None and self._last < len(self.pool):
            return self.pool[self._last]
        return self.pool[op["i"] % len(self.pool)]

    def step(self, op):
        k = op["op"]
        if k == "labeller":
            self._op_labeller(op)
            return
        if k == "new":
            self._op_new(op)
            return
        if not self.pool:
            return
        g, m = self._pick(op)
        before = walker.digest(g)
        getattr(self, "_op_" + k)(op, g, m)
        self.ctx.require(walker.digest(g) == before, "input_intact", "operation_modified_receiver_" + k)
        for g2, m2 in self.pool:
            ov = len(set(i for _, ix in m2.labels for i in ix)) < sum(len(ix) for _, ix in m2.labels)
            self.ctx.state(len(m2.labels), ov, k)

    # --- construction
    def _op_new(self, op):
        g = rs(op["seed"])
        n, nl = op["n"], op["nl"]
        pts = gen.distinct_points(op["seed"], n, self.d, scale=10.0)
        edges = sorted({tuple(sorted(int(v) for v in g.randint(0, n, size=2))) for _ in range(int(g.randint(0, 2 * n)))})
        if op["seed"] % 3 == 0 and any(e[0] == e[1] for e in edges):
            self.ctx.probe("graph_with_self_loop")      # menpo's own labellers build them (closed one-point curves)
        else:
            edges = [e for e in edges if e[0] != e[1]]
        names = [NAMES[i] for i in g.permutation(len(NAMES))[:nl]]
        labels, covered = [], set()
        for nm in names:
            ix = tuple(int(i) for i in np.nonzero(g.rand(n) < 0.45)[0])
            if not ix:
                ix = (int(g.randint(n)),)
            labels.append((nm, ix))
            covered |= set(ix)
        rest = tuple(sorted(set(range(n)) - covered))
        if rest:
            # give the uncovered points to a random existing label so that the label count stays as drawn
            j = int(g.randint(len(labels)))
            labels[j] = (labels[j][0], tuple(sorted(set(labels[j][1]) | set(rest))))
        if any(ord(c) > 127 for nm in names for c in nm):
            self.ctx.probe("non_ascii_label")
        how = op["how"] % 3
        e_arr = np.array(edges, dtype=int).reshape(-1, 2)
        try:
            if how == 0:
                adj = e_arr
                if len(edges) == 2 or len(edges) == n:
                    # an (E, 2) edge array with E == 2 or E == n_points would be read as an adjacency matrix
                    adj = np.zeros((n, n), dtype=int)
                    for a, b in edges:
                        adj[a, b] = adj[b, a] = 1
                G = LabelledPointUndirectedGraph.init_from_indices_mapping(
                    pts.copy(), adj, OrderedDict((nm, np.array(ix)) for nm, ix in labels))
            else:
                masks = OrderedDict()
                for nm, ix in labels:
                    mk = np.zeros(n, dtype=bool)
                    mk[list(ix)] = True
                    masks[nm] = mk
                self._caller_masks = masks      # the caller keeps (and later reuses) these boolean buffers
                if how == 1:
                    G = LabelledPointUndirectedGraph.init_from_edges(pts.copy(), e_arr, masks)
                else:
                    A = np.zeros((n, n), dtype=int)
                    for a, b in edges:
                        A[a, b] = A[b, a] = 1
                    G = LabelledPointUndirectedGraph(pts.copy(), A, masks)
        except Exception as ex:
            self.ctx.fail("construct", "constructor_raised", repr(ex))
            return
        if op["seed"] % 8 == 5 and n >= 2:
            # masks that leave one point without any label are refused - whatever the caller says about checks it
            # does not need (skip_checks is about the graph's connectivity checks)
            p_ = int(g.randint(n))
            bad = OrderedDict()
            for nm, ix in labels:
                mk = np.zeros(n, dtype=bool)
                mk[[i for i in ix if i != p_]] = True
                bad[nm] = mk
            A_ = np.zeros((n, n), dtype=int)
            for a, b in edges:
                A_[a, b] = A_[b, a] = 1
            for sc in (False, True):
                try:
                    R_ = LabelledPointUndirectedGraph(pts.copy(), A_, OrderedDict((k_, v_.copy()) for k_, v_ in bad.items()), skip_checks=sc)
                except ValueError:
                    self.ctx.probe("uncovered_point_refused_at_construction")
                    self.ctx.ok()
                    continue
                except Exception as ex:
                    self.ctx.fail("construct", "constructor_raised", repr(ex))
                    return
                self.ctx.fail("all_points_labelled", "constructor_accepted_an_uncovered_point",
                              "point %d carries no label (skip_checks=%r) and the graph was built: labels %r" % (p_, sc, list(R_.labels)))
        m = Model(pts, edges, labels)
        self._compare(G, m, "constructed")
        if how != 0 and op["seed"] % 3 == 0:
            # the caller clears / reuses the mask arrays (and the points array) it passed: a graph built with the
            # default copy=True owns its data and must not notice
            for mk in self._caller_masks.values():
                mk[...] = False
            self.ctx.probe("caller_reuses_constructor_buffers")
            self._compare(G, m, "after_caller_reused_its_mask_buffers")
        self._put(G, m, op["dst"])

    # --- comparison with the model
    def _compare(self, G, m, what, strict_order=True):
        try:
            return self._compare_inner(G, m, what, strict_order)
        except Exception as ex:     # a query on the graph itself failed
            self.ctx.fail("selection", what + "_query_raised", "%s: %r" % (what, ex))
            return False

    def _compare_inner(self, G, m, what, strict_order=True):
        ctx = self.ctx
        ok = isinstance(G, PointUndirectedGraph) and G.points.shape == m.points.shape and np.array_equal(G.points, m.points)
        ctx.require(ok, "selection", what + "_points", lambda: "%s: points %r expected %r" % (what, getattr(G, "points", None), m.points))
        if not ok:
            return False
        ge = edges_of(G)
        ctx.require(ge == m.edges, "selection", what + "_edges", lambda: "%s: edges %r expected %r" % (what, ge, m.edges))
        if isinstance(G, LabelledPointUndirectedGraph):
            got = list(G.labels)
            if strict_order:
                ctx.require(got == m.names(), "label_order", what, lambda: "%s: labels %r expected (original order) %r" % (what, got, m.names()))
            else:
                ctx.require(sorted(got) == sorted(m.names()), "selection", what + "_label_set", lambda: "%r vs %r" % (got, m.names()))
            covered = np.zeros(m.points.shape[0], dtype=bool)
            for nm, ix in m.labels:
                if nm not in got:
                    continue
                sp = _label_points(G, nm)
                ok = sp.shape == (len(ix), m.points.shape[1]) and np.array_equal(sp, m.points[list(ix)])
                ctx.require(ok, "selection", what + "_label_points", lambda: "%s: label %r has points %r expected indices %r" % (what, nm, sp.tolist(), ix))
                covered[list(ix)] = True
            # every point carries at least one label (from the SUT's own view of its labels)
            cov = np.zeros(G.n_points, dtype=bool)
            for nm in got:
                sp = _label_points(G, nm)
                for p in sp:
                    cov |= np.all(G.points == p, axis=1)
            ctx.require(bool(cov.all()), "all_points_labelled", what, lambda: "%s: points %r carry no label" % (what, np.nonzero(~cov)[0].tolist()))
            ctx.out(what, got, G.points, ge, [(nm, _label_points(G, nm)) for nm in got])
        else:
            ctx.out(what, G.points, ge)
        return True

    def _subset(self, m, bits, allow_all):
        names = m.names()
        chosen = [nm for j, nm in enumerate(names) if (bits >> j) & 1]
        if not chosen:
            chosen = [names[bits % len(names)]]
        if not allow_all and len(chosen) == len(names):
            chosen = chosen[:-1]
        return chosen

    def _select_nothing(self, op, G, m):
        """A selection that keeps no label cannot be answered with a graph (every point carries a label): it is
        refused, the graph it was asked of is untouched (checked by the caller) and so is everything else - which
        the operations that follow in the history find out."""
        try:
            R = G.with_labels([]) if op["seed"] & 32 else G.without_labels(list(m.names()))
        except Exception:
            self.ctx.probe("selection_of_nothing_refused")
            self.ctx.ok()
            return
        self.ctx.fail("selection", "selection_of_nothing_returned_a_graph", "returned %r with labels %r" % (R, getattr(R, "labels", None)))

    def _op_with(self, op, G, m):
        if op["seed"] % 16 == 5:
            return self._select_nothing(op, G, m)
        L = self._subset(m, op["bits"], True)
        arg = L[0] if len(L) == 1 and op["seed"] & 1 else list(L)
        permuted = False
        if len(L) >= 2 and op["seed"] % 4 == 2:
            # the labels requested in another order than they are stored in: the order of the result is left open by
            # the statement and is not judged, but every label must still carry ITS OWN points
            arg = list(reversed(L)) if op["seed"] % 8 == 2 else [L[-1]] + L[:-1]
            permuted = True
            self.ctx.probe("with_labels_in_other_order")
        elif len(L) >= 2 and op["seed"] % 4 == 3:
            # a request that names a label twice (lists glued together by the caller) selects what it names, once
            arg = list(L) + [L[op["seed"] % len(L)], L[0]]
            permuted = True
            self.ctx.probe("with_labels_naming_a_label_twice")
        if not set(i for nm_, ix_ in m.labels if nm_ in set(L) for i in ix_):
            # only labels without points were asked for: no point, no graph - refused like a selection of nothing
            try:
                G.with_labels(arg)
            except Exception:
                self.ctx.probe("selection_of_empty_labels_only_refused")
                return
            self.ctx.fail("selection", "selection_without_points_returned_a_graph", "with_labels(%r)" % (arg,))
            return
        try:
            R = G.with_labels(arg)
        except Exception as ex:
            self.ctx.fail("selection", "with_labels_raised", "with_labels(%r) on %r: %r" % (arg, m.names(), ex))
            return
        self.ctx.probe("with_labels")
        if G is not self.pool[0][0] or len(self.pool) > 1:
            self.ctx.probe("chained_selection")
        em = m.select(set(L))
        if permuted:
            self._compare(R, em, "with_labels_permuted", strict_order=False)
        elif self._compare(R, em, "with_labels"):
            self._put(R, em, op["dst"])

    def _op_without(self, op, G, m):
        if len(m.labels) < 2:
            return
        L = self._subset(m, op["bits"], False)
        if not L or len(L) >= len(m.labels):
            return
        arg = L[0] if len(L) == 1 and op["seed"] & 1 else list(L)
        keep = [nm for nm in m.names() if nm not in L]
        if not set(i for nm_, ix_ in m.labels if nm_ in set(keep) for i in ix_):
            try:
                G.without_labels(arg)
            except Exception:
                self.ctx.probe("selection_of_empty_labels_only_refused")
                return
            self.ctx.fail("selection", "selection_without_points_returned_a_graph", "without_labels(%r)" % (arg,))
            return
        try:
            R = G.without_labels(arg)
        except Exception as ex:
            self.ctx.fail("selection", "without_labels_raised", "without_labels(%r) on %r: %r" % (arg, m.names(), ex))
            return
        if len(keep) >= 3:
            self.ctx.probe("without_labels_ge3_remaining")
        em = m.select(set(keep))
        if self._compare(R, em, "without_labels"):
            self._put(R, em, op["dst"])

    def _op_get(self, op, G, m):
        nm, ix = m.labels[op["k"] % len(m.labels)]
        if not ix:
            # a label without points cannot be read as a graph (there is no graph without vertices)
            try:
                G.get_label(nm)
            except Exception:
                self.ctx.probe("selection_of_empty_labels_only_refused")
                return
            self.ctx.fail("selection", "selection_without_points_returned_a_graph", "get_label(%r)" % (nm,))
            return
        try:
            R = G.get_label(nm)
        except Exception as ex:
            self.ctx.fail("selection", "get_label_raised", repr(ex))
            return
        self.ctx.probe("get_label")
        em = m.select({nm})
        self.ctx.require(not isinstance(R, LabelledPointUndirectedGraph) or True, "selection", "get_label_type")
        self._compare(R, Model(em.points, em.edges, []), "get_label")

    def _op_add(self, op, G, m):
        g = rs(op["seed"])
        n = m.points.shape[0]
        existing = (op["bits"] & 3) == 0
        if existing:
            nm = m.names()[op["k"] % len(m.labels)]
        else:
            free = [x for x in NAMES if x not in m.names()]
            if not free:
                return
            nm = free[op["k"] % len(free)]
        ix = tuple(int(i) for i in np.nonzero(g.rand(n) < 0.5)[0]) or (int(g.randint(n)),)
        arg = np.array(ix) if op["seed"] & 1 else list(ix)
        empty = (op["seed"] >> 1) % 8 == 0
        if empty:
            # an empty index set is a legal argument: the label then covers no point
            ix = ()
            arg = [np.array([], dtype=int), [], range(0)][(op["seed"] >> 4) % 3]
            self.ctx.probe("add_label_with_empty_index_set")
        elif (op["seed"] >> 7) % 4 == 0:
            # "indices in to the points" index the way NumPy indexes: some are spelled from the end
            neg = [i - n if (j + op["seed"]) % 2 == 0 else i for j, i in enumerate(ix)]
            arg = np.array(neg) if op["seed"] & 1 else neg
            self.ctx.probe("add_label_with_indices_counted_from_the_end")
        if existing:
            labels = [(a, ix if a == nm else b) for a, b in m.labels]
        else:
            labels = m.labels + [(nm, ix)]
        covered = set(i for _, b in labels for i in b)
        legal = len(covered) == n
        try:
            R = G.add_label(nm, arg)
        except ValueError as ex:
            # refusing to leave a point unlabelled is fine; refusing a legal addition is not
            self.ctx.require(not legal, "selection", "add_label_rejected_legal", lambda: "add_label(%r, %r): %r" % (nm, ix, ex))
            return
        except Exception as ex:
            self.ctx.fail("selection", "add_label_raised", repr(ex))
            return
        self.ctx.probe("add_label_existing" if existing else "add_label_new")
        em = Model(m.points, m.edges, labels)
        if not legal:
            self.ctx.fail("all_points_labelled", "add_label_replaced_label_and_left_points_unlabelled",
                          "add_label(%r, %r) on labels %r leaves points %r without any label" % (nm, ix, m.labels, sorted(set(range(n)) - covered)))
            return
        if empty:
            if self._compare(R, em, "add_label_empty", strict_order=True):
                # a group that carries a label without points is a group like any other for what follows
                self.ctx.probe("group_with_an_empty_label_kept")
                self._put(R, em, op["dst"])
            return
        # (giving an existing label other points does not move it: "the labels in their original order")
        if self._compare(R, em, "add_label", strict_order=True):
            self._put(R, em, op["dst"])

    def _op_remove(self, op, G, m):
        nm, ix = m.labels[op["k"] % len(m.labels)]
        rest = [(a, b) for a, b in m.labels if a != nm]
        legal = bool(rest) and len(set(i for _, b in rest for i in b)) == m.points.shape[0]
        try:
            R = G.remove_label(nm)
        except Exception as ex:
            self.ctx.require(not legal, "selection", "remove_label_rejected_legal", lambda: "remove_label(%r) from %r: %r" % (nm, m.labels, ex))
            if not legal:
                self.ctx.probe("remove_label_illegal")
            return
        if not legal:
            self.ctx.fail("all_points_labelled", "illegal_removal_accepted",
                          "remove_label(%r) from %r leaves unlabelled points and was accepted" % (nm, m.labels))
            return
        self.ctx.probe("remove_label_legal")
        em = Model(m.points, m.edges, rest)
        if self._compare(R, em, "remove_label"):
            self._put(R, em, op["dst"])

    def _op_copy(self, op, G, m):
        R = G.copy()
        if self._compare(R, m, "copy"):
            self._put(R, m, op["dst"])

    def _op_labels(self, op, G, m):
        self._compare(G, m, "labels")

    # --- labellers
    def _op_labeller(self, op):
        ctx = self.ctx
        name = LABELLERS[op["which"] % len(LABELLERS)]
        f = getattr(ML, name)
        n = expected_size(name)
        d = 3 if (op["d3"] == 0 or "bu3dfe" in name) else 2
        wrong = op["wrong"]
        n_in = n if wrong == 0 else (n + 1 if wrong == 1 else n - 1)
        pts = gen.distinct_points(op["seed"], n_in, d)
        form = op["form"] % 4
        if form == 0:
            x = pts.copy()
            if (op["seed"] >> 3) % 3 == 0:
                # the same values in another memory layout (coordinates kept per axis, then transposed)
                x = np.asfortranarray(pts) if (op["seed"] >> 5) & 1 else np.ascontiguousarray(pts.T).T
                ctx.probe("labeller_given_a_column_major_array")
        elif form == 1:
            x = PointCloud(pts.copy())
        elif form == 2:
            x = LabelledPointUndirectedGraph.init_with_all_label(pts.copy(), np.zeros((n_in, n_in), dtype=int))
        else:
            x = None  # through a landmark manager
        if wrong:
            try:
                f(PointCloud(pts.copy()) if x is None else x)
                ctx.fail("labeller", "wrong_size_accepted_" + name, "%s accepted %d points (expects %d)" % (name, n_in, n))
            except LabellingError:
                ctx.probe("labeller_wrong_size")
                ctx.ok()
            except Exception as ex:
                ctx.fail("labeller", "wrong_size_wrong_exception_" + name, repr(ex))
            return
        ctx.probe("ran_" + name)
        if d == 3:
            ctx.probe("labeller_3d")
        if form == 3:
            owner = PointCloud(gen.distinct_points(op["seed"] ^ 1, 4, d))
            owner.landmarks["src"] = PointCloud(pts.copy())
            try:
                back = labeller_via_manager(owner, "src", f)
            except Exception as ex:
                ctx.fail("labeller", "via_manager_raised_" + name, repr(ex))
                return
            ctx.probe("labeller_via_manager")
            ctx.require(f.group_label in owner.landmarks.group_labels, "labeller", "via_manager_group_missing_" + name)
            out = owner.landmarks[f.group_label]
            ref, mapping = f(PointCloud(pts.copy()), return_mapping=True)
            ctx.require(np.array_equal(out.points, ref.points), "labeller", "via_manager_differs_" + name)
            ctx.require(np.array_equal(owner.landmarks["src"].points, pts), "input_intact", "labeller_modified_source_group_" + name)
            ctx.out("labeller_mgr", name, out.points)
            return
        before = walker.digest(x)
        try:
            out, mapping = f(x, return_mapping=True)
        except Exception as ex:
            ctx.fail("labeller", "raised_" + name, "%s on %d points (%dD, form %d): %r" % (name, n_in, d, form, ex))
            return
        ctx.probe(["labeller_array", "labeller_pointcloud", "labeller_labelled_graph"][form])
        ctx.require(walker.digest(x) == before, "input_intact", "labeller_modified_input_" + name)
        op_ = np.asarray(out.points)
        # pure re-indexing: every output point is a distinct input point
        if op_.ndim != 2 or op_.shape[1] != pts.shape[1]:
            ctx.fail("labeller", "not_a_reindexing_" + name,
                     "output points have shape %r for an input of shape %r" % (op_.shape, pts.shape))
            return
        idx = []
        for p in op_:
            hit = np.nonzero(np.all(pts == p, axis=1))[0]
            idx.append(int(hit[0]) if len(hit) == 1 else -1)
        ctx.require(all(i >= 0 for i in idx) and len(set(idx)) == len(idx), "labeller", "not_a_reindexing_" + name,
                    lambda: "output points are not distinct input points: %r" % idx)
        # every output point labelled (mapping returned by the labeller)
        cov = np.zeros(op_.shape[0], dtype=bool)
        for lab, ind in mapping.items():
            cov[np.asarray(ind, dtype=int)] = True
        ctx.require(bool(cov.all()), "labeller", "unlabelled_output_point_" + name,
                    lambda: "points %r are in no label" % np.nonzero(~cov)[0].tolist())
        if isinstance(out, LabelledPointUndirectedGraph):
            ctx.require(list(out.labels) == list(mapping.keys()), "labeller", "labels_differ_from_mapping_" + name)
        # commutes with a similarity of the input
        H = gen.homog_matrix("Similarity", op["seed"] ^ 0x77, d)
        tp = pts @ H[:d, :d].T + H[:d, d]
        xt = tp.copy() if form == 0 else (PointCloud(tp.copy()) if form == 1 else
                                          LabelledPointUndirectedGraph.init_with_all_label(tp.copy(), np.zeros((n_in, n_in), dtype=int)))
        out2, mapping2 = f(xt, return_mapping=True)
        exp = op_ @ H[:d, :d].T + H[:d, d]
        ctx.probe("labeller_commutes_checked")
        ctx.require(out2.points.shape == exp.shape and float(np.abs(out2.points - exp).max()) <= 1e-9 * (1 + np.abs(exp).max()),
                    "labeller", "does_not_commute_with_transform_" + name)
        ctx.require(list(mapping2.keys()) == list(mapping.keys()) and all(np.array_equal(mapping[k], mapping2[k]) for k in mapping),
                    "labeller", "mapping_depends_on_coordinates_" + name)
        if hasattr(out, "adjacency_matrix") and hasattr(out2, "adjacency_matrix"):
            ctx.require(edges_of(out) == edges_of(out2), "labeller", "edges_depend_on_coordinates_" + name)
        ctx.out("labeller", name, form, idx, [(k, np.asarray(v).tolist()) for k, v in mapping.items()],
                edges_of(out) if hasattr(out, "adjacency_matrix") else np.asarray(getattr(out, "trilist", [])).tolist())
        ctx.state(name, form, wrong)


MACHINE = Labels
