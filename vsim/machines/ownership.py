"""C06: copies are equal and fully independent; attached landmarks are owned copies.

Histories over a pool of menpo objects (landmark owners of every shape / image
class, free landmark managers, values, transforms, models, lazy lists).  The
reference ownership model is a dict of deep snapshots: every operation declares
which pool objects it may legitimately modify; after every step the deep digest of
every other object must be unchanged, and every manager must list exactly the
groups the model holds, in insertion order, each equal to the snapshot taken when
it was stored.
"""
import warnings
from collections import OrderedDict

import numpy as np

from ..core import Machine, rs
from .. import gen, walker

from menpo.base import LazyList
from menpo.landmark import LandmarkManager
from menpo.model import PCAModel, PCAVectorModel
from menpo.model.linear import LinearVectorModel, MeanLinearVectorModel
from menpo.shape import PointCloud
from menpo.transform import Homogeneous, TransformChain, WithDims
from menpo.transform.base.alignment import Alignment
from menpo.transform.rbf import R2LogR2RBF, R2LogRRBF

SKIP = ("__empty__",)
POOL = 7
NAMES = ["g", "left eye", "PTS", "Ünï", ""]     # the empty string is a str like any other
OWNER_KINDS = gen.SHAPE_KINDS + gen.IMAGE_KINDS
OTHER_KINDS = gen.HOMOG_KINDS + gen.ALIGN_KINDS + ["ThinPlateSplines", "PiecewiseAffine", "TransformChain", "WithDims",
                                                   "R2LogR2RBF", "R2LogRRBF", "LinearVectorModel", "MeanLinearVectorModel",
                                                   "PCAVectorModel", "PCAModel", "LazyList"]


def dg(o):
    return walker.digest(o, skip=SKIP)


class Cell(object):
    def __init__(self, obj, role, kind, d=None):
        self.obj, self.role, self.kind, self.d = obj, role, kind, d
        self.digest = dg(obj)
        self.groups = OrderedDict() if role in ("owner", "manager") else None   # name -> digest of stored group
        self.is_copy = False
        # arrays that exist at construction time = the object's own data / parameter arrays; buffers that
        # later calls create (memos) are not "its data arrays" in the sense of the statement
        self.param_paths = {p for p, _ in walker.arrays(obj)} if role == "other" else None
        self.probe_results = {}
        # the reference to its landmark manager that the caller takes from an owner right away (while it is empty)
        self.handle = obj.landmarks if role == "owner" else None


class Ownership(Machine):
    PROPERTY = "C06"
    NAME = "ownership"
    BUDGET = {"quick": {"runs": 30000, "wall": 80, "digests": 24, "block": 50},
              "thorough": {"runs": 400000, "wall": 840, "digests": 96, "block": 200}}
    LEVEL = {"quick": "exploration", "thorough": "exploration"}
    RULE = ("seeded histories over a pool of landmark owners (8 shape classes, 3 image classes), free landmark "
            "managers, values and other Copyables (homogeneous family, alignments, TPS, PWA, chains, WithDims, RBFs, "
            "linear/PCA models, lazy lists): manager set/get/None-key/del/pop/clear/iterate/copy, assign manager to "
            "owner, copy, transform owner, caller edits an assigned value, edit a stored group, scribble through "
            "every reachable buffer of one object, public mutators on one side of a copy pair; non-trivial = at "
            "least one clause evaluated; distinct = distinct op-kind sequences")
    STATE_MEASURE = "tuple over owners/managers of (class, ordered group names, n_dims); multiset of other classes"
    REAL = ["Copyable.copy and every override", "LandmarkManager / Landmarkable", "Transform.apply on landmarked shapes",
            "public mutators (set_target, trim_components, n_active_components, in-place composition, from_vector_inplace)"]
    STUB = []
    ASSUMPTIONS = ["sharing the statement itself allows is subtracted: the point sets an alignment was fitted to "
                   "(source/target, incl. the TPS kernel centres) and the members of a chain",
                   "re-setting an existing group name may keep or move its position",
                   "a lazily created empty landmark manager equals an absent one (None)",
                   "lazy lists are built from callables that hold no arrays"]
    REQUIRED_PROBES = ("reset_existing_key", "empty_then_other_dimension", "none_key_0", "none_key_1", "none_key_2",
                       "assign_manager_across_classes", "wrong_dimension_set_rejected", "wrong_dimension_assign_rejected",
                       "scribble_sparse", "scribble_label_masks", "scribble_texture", "scribble_template",
                       "edit_value_after_assign", "edit_stored_group", "copy_pair_static_sharing_checked",
                       "mutator_on_copy", "transform_owner", "non_pointcloud_value_rejected", "copy_of_copy",
                       "apply_on_copy_pair", "apply_repeated_after_other_activity", "alignment_parameter_update",
                       "own_group_stored_under_second_name", "owner_taken_to_another_dimensionality",
                       "own_manager_assigned_back", "identity_valued_transform", "inplace_composition_with_own_copy",
                       "manager_whose_first_group_is_empty")

    @classmethod
    def swarm(cls, rng, tier):
        return {"steps": rng.randint(4, 24 if tier == "quick" else 40), "d3": rng.random() < 0.3, "seed0": rng.getrandbits(30),
                "w": [rng.choice([0, 1, 1, 2, 3]) for _ in range(15)]}

    OPS = ["new_owner", "new_value", "new_manager", "new_other", "set", "get", "delete", "iterate", "mgr_copy",
           "assign", "copy", "transform", "edit", "scribble", "apply"]

    @classmethod
    def draw(cls, rng, cfg):
        w = list(cfg["w"])
        w[4] += 2
        w[10] += 1
        k = rng.choices(cls.OPS, weights=w)[0]
        return {"op": k, "i": rng.randrange(64), "j": rng.randrange(64), "kind": rng.randrange(64),
                "seed": rng.getrandbits(32), "name": rng.randrange(6), "how": rng.randrange(6),
                "d3": int(cfg["d3"] and rng.random() < 0.5), "dst": rng.randrange(64)}

    # ------------------------------------------------------------------
    def setup(self):
        warnings.simplefilter("ignore")
        self.pool = []
        self.cells_by_role = lambda r: [c for c in self.pool if c.role in r]
        s0 = self.cfg.get("seed0", 1)
        for k, nm in enumerate(["new_owner", "new_value", "new_manager", "new_other", "new_value"]):
            getattr(self, "_op_" + nm)({"kind": (s0 >> (5 * k)) % 64, "seed": s0 + k, "d3": 0, "dst": k})

    def _put(self, cell, dst):
        if len(self.pool) < POOL:
            self.pool.append(cell)
        else:
            self.pool[dst % POOL] = cell
        return cell

    def _pick(self, roles, k):
        c = self.cells_by_role(roles)
        return c[k % len(c)] if c else None

    def _mgr(self, cell, held=False):
        """The manager of a cell.  held=True: the reference the caller took from the owner EARLIER (when the cell was
        made, or after the last assignment of a whole manager) - writing through it is writing into the owner's
        landmarks; reads and checks go through a fresh `owner.landmarks`."""
        if cell.role == "manager":
            return cell.obj
        if held:
            if getattr(cell, "handle", None) is None:
                cell.handle = cell.obj.landmarks
            else:
                self.ctx.probe("manager_reference_taken_earlier_used_for_writing")
            return cell.handle
        return cell.obj.landmarks

    def _ndims(self, cell):
        return cell.d

    def step(self, op):
        modified = getattr(self, "_op_" + op["op"])(op) or ()
        self._invariants(set(id(c) for c in modified))

    def _invariants(self, modified):
        ctx = self.ctx
        for c in self.pool:
            now = dg(c.obj)
            if id(c) in modified:
                c.digest = now
                continue
            if now != c.digest:
                ctx.fail("independent", "object_changed_by_operation_on_another_%s" % c.kind,
                         "%s (%s%s) changed although the operation was on another object; now: %s"
                         % (c.kind, c.role, ", copy" if c.is_copy else "", walker.describe(c.obj, skip=SKIP, limit=8)))
                c.digest = now
        for c in self.pool:
            if c.groups is None:
                continue
            m = self._mgr(c)
            names = list(m.group_labels)
            ok = names == list(c.groups) and len(m) == len(c.groups) and list(iter(m)) == names
            ctx.require(ok, "manager", "group_names_or_order",
                        lambda: "groups %r expected %r" % (names, list(c.groups)))
            if not ok:
                continue
            got = {}
            for nm in names:
                try:
                    got[nm] = m[nm]
                except Exception as ex:
                    ctx.fail("manager", "stored_group_cannot_be_read", "manager[%r] (groups %r) raised %r" % (nm, names, ex))
            if len(got) != len(names):
                continue
            for nm in names:
                ctx.require(dg(got[nm]) == c.groups[nm], "owned_copy", "stored_group_differs_from_what_was_stored",
                            lambda: "group %r of %s no longer equals the value that was stored" % (nm, c.kind))
            if len(names) >= 1:
                nd = {got[nm].n_dims for nm in names}
                ctx.require(len(nd) == 1, "manager", "mixed_dimensions", lambda: repr(nd))
        ctx.out([(c.kind, c.digest, list(c.groups) if c.groups is not None else None) for c in self.pool])
        ctx.state(sorted((c.kind, tuple(c.groups) if c.groups is not None else (), c.d) for c in self.pool))

    # ---- construction
    def _op_new_owner(self, op):
        kind = OWNER_KINDS[op["kind"] % len(OWNER_KINDS)]
        d = 3 if (op["d3"] and kind not in gen.IMAGE_KINDS and kind != "TexturedTriMesh") else 2
        if kind in gen.IMAGE_KINDS:
            o = gen.make_image(kind, op["seed"], d=2)
        else:
            o = gen.make_shape(kind, op["seed"], 3 + op["seed"] % 5, d)
        self._put(Cell(o, "owner", kind, d), op["dst"])

    def _op_new_value(self, op):
        kind = gen.SHAPE_KINDS[op["kind"] % len(gen.SHAPE_KINDS)]
        d = 3 if (op["d3"] and kind != "TexturedTriMesh") else 2
        o = gen.make_shape(kind, op["seed"], 3 + op["seed"] % 5, d)
        if (op["seed"] >> 5) % 4 == 0:
            # an object with a history: rebuilt from a parameter vector, it holds a (read-only) view of that vector
            try:
                o = o.from_vector(np.array(o.as_vector()))
                o = o.from_vector(o.as_vector())
                self.ctx.probe("value_rebuilt_from_its_vector")
            except Exception as ex:
                self.ctx.fail("copy", "from_vector_raised_" + kind, repr(ex))
        self._put(Cell(o, "value", kind, d), op["dst"])

    def _op_new_manager(self, op):
        cell = Cell(LandmarkManager(), "manager", "LandmarkManager", None)
        if op["seed"] % 4 == 1:
            # a manager whose first group holds no point (yet): a group of d dimensions all the same, so the manager
            # has that dimensionality from now on
            d = 3 if op["d3"] else 2
            v0 = PointCloud(np.zeros((0, d)))
            cell.obj["empty"] = v0
            cell.groups["empty"] = dg(v0)
            cell.had_dim = d
            cell.digest = dg(cell.obj)
            self.ctx.probe("manager_whose_first_group_is_empty")
        self._put(cell, op["dst"])

    def _op_new_other(self, op):
        kind = OTHER_KINDS[op["kind"] % len(OTHER_KINDS)]
        g = rs(op["seed"])
        d = 2
        if kind in gen.HOMOG_KINDS:
            d = 3 if op["d3"] else 2
            o = gen.homog_transform(kind, op["seed"], d)
            if op["seed"] % 8 == 3:
                # a transform that IS the identity (freshly initialised, as accumulators are)
                o = type(o).init_identity(d)
                self.ctx.probe("identity_valued_transform")
        elif kind in gen.ALIGN_KINDS or kind in ("ThinPlateSplines", "PiecewiseAffine"):
            src = gen.general_points(op["seed"], 6, 2)
            tgt = gen.target_for("AlignmentAffine", op["seed"] ^ 5, src)
            o = gen.make_alignment(kind, PointCloud(src), PointCloud(tgt), {})
        elif kind == "TransformChain":
            o = TransformChain([gen.homog_transform("Affine", op["seed"], 2), gen.homog_transform("Rotation", op["seed"] ^ 1, 2)])
        elif kind == "WithDims":
            o = WithDims([1, 0])
        elif kind == "R2LogR2RBF":
            o = R2LogR2RBF(g.rand(4, 2))
        elif kind == "R2LogRRBF":
            o = R2LogRRBF(g.rand(4, 2))
        elif kind == "LinearVectorModel":
            o = LinearVectorModel(np.linalg.qr(g.randn(5, 3))[0].T.copy())
        elif kind == "MeanLinearVectorModel":
            o = MeanLinearVectorModel(np.linalg.qr(g.randn(5, 3))[0].T.copy(), g.randn(5))
        elif kind == "PCAVectorModel":
            o = PCAVectorModel(g.randn(8, 5), inplace=False)
        elif kind == "PCAModel":
            o = PCAModel([PointCloud(g.randn(4, 2)) for _ in range(6)])
        else:
            o = LazyList.init_from_iterable(list(range(4))).map(abs)
        self._put(Cell(o, "other", kind, d), op["dst"])

    # ---- manager operations
    def _op_set(self, op):
        ctx = self.ctx
        tgt = self._pick(("owner", "manager"), op["i"])
        if tgt is None:
            return
        how = op["how"]
        if how == 5 and op["name"] == 5:
            # not a PointCloud subclass: must be refused
            m = self._mgr(tgt)
            try:
                m["img"] = gen.make_image("Image", op["seed"])
                ctx.fail("manager", "accepted_non_pointcloud_value", "an Image was stored as a landmark group")
            except Exception:
                ctx.probe("non_pointcloud_value_rejected")
                ctx.ok()
            return ()
        if how == 4 and tgt.groups:
            # the rename idiom: store one of the manager's OWN groups under another name (and keep the old one)
            m = self._mgr(tgt)
            src_name = list(tgt.groups)[op["j"] % len(tgt.groups)]
            name = NAMES[op["name"] % len(NAMES)]
            if name == src_name:
                return
            try:
                m[name] = m[src_name]
            except Exception as ex:
                ctx.fail("manager", "set_raised", "manager[%r] = manager[%r] raised %r" % (name, src_name, ex))
                return ()
            ctx.probe("own_group_stored_under_second_name")
            if name in tgt.groups:
                now = list(m.group_labels)
                new = OrderedDict()
                for n_ in now:
                    new[n_] = tgt.groups.get(n_)
                tgt.groups = new
            tgt.groups[name] = tgt.groups[src_name]
            return (tgt,)
        val = self._pick(("value", "owner"), op["j"])
        if val is None or val.obj is tgt.obj or val.kind in gen.IMAGE_KINDS:
            return
        name = NAMES[op["name"] % len(NAMES)]
        m = self._mgr(tgt, held=bool(op["seed"] & 1))
        cur = None
        if tgt.groups:
            cur = m[list(tgt.groups)[0]].n_dims
        elif tgt.role == "owner":
            cur = None
        expect_reject = cur is not None and cur != val.d
        if tgt.role == "owner" and not tgt.groups and val.d != tgt.d:
            # an owner's own dimensionality is not consulted by the manager itself; follow the SUT
            expect_reject = None
        try:
            m[name] = val.obj
            raised = None
        except Exception as ex:
            raised = ex
        if expect_reject is True:
            ctx.require(raised is not None, "manager", "accepted_second_dimensionality",
                        lambda: "a %dD group was stored next to %dD groups" % (val.d, cur))
            if raised is not None:
                ctx.probe("wrong_dimension_set_rejected")
            else:
                tgt.groups[name] = dg(m[name])
            return (tgt,) if raised is None else ()
        if raised is not None:
            if expect_reject is None:
                return ()
            ctx.fail("manager", "set_raised", "manager[%r] = %s raised %r" % (name, val.kind, raised))
            return ()
        if name in tgt.groups:
            ctx.probe("reset_existing_key")
            # "insertion order" as every Python mapping means it: giving an existing name a new value is not an insertion
            others = [n for n in tgt.groups if n != name]
            now = list(m.group_labels)
            ctx.require([n for n in now if n != name] == others and name in now, "manager", "order_of_other_groups_changed")
            ctx.require(now == list(tgt.groups), "manager", "reset_of_an_existing_group_moved_it",
                        lambda: "groups %r; after manager[%r] = <new value>: %r" % (list(tgt.groups), name, now))
            new = OrderedDict()
            for n in now:
                new[n] = tgt.groups.get(n)
            tgt.groups = new
        if not tgt.groups and getattr(tgt, "had_dim", None) not in (None, val.d):
            ctx.probe("empty_then_other_dimension")
        tgt.had_dim = val.d
        tgt.groups[name] = val.digest   # the stored group must equal the value as it was when stored
        val.assigned = True
        return (tgt,)

    def _op_get(self, op):
        ctx = self.ctx
        tgt = self._pick(("owner", "manager"), op["i"])
        if tgt is None:
            return
        m = self._mgr(tgt)
        n = len(tgt.groups)
        if op["how"] % 5 == 4:
            # a name that is not there is never resolved to something else
            absent = [x for x in NAMES if x not in tgt.groups]
            if absent:
                nm = absent[op["name"] % len(absent)]
                ctx.probe("absent_name_looked_up")
                try:
                    g = m[nm]
                    ctx.fail("manager", "absent_name_resolved", "manager[%r] returned a %s although the groups are %r" % (nm, type(g).__name__, list(tgt.groups)))
                except KeyError:
                    ctx.ok()
                except Exception as ex:
                    ctx.fail("manager", "absent_name_wrong_error", "manager[%r] with groups %r raised %r" % (nm, list(tgt.groups), ex))
                ctx.require(nm not in m, "manager", "contains_absent_name")
        elif op["how"] % 2 == 0:
            ctx.probe("none_key_%d" % min(n, 2))
            try:
                g = m[None]
                ctx.require(n == 1, "manager", "none_key_resolved_with_%d_groups" % n, lambda: "manager[None] returned a group although there are %d groups" % n)
                if n == 1:
                    ctx.require(dg(g) == list(tgt.groups.values())[0], "owned_copy", "none_key_returned_other_group")
            except Exception as ex:
                ctx.require(n != 1, "manager", "none_key_rejected_with_one_group", lambda: repr(ex))
        elif n:
            nm = list(tgt.groups)[op["name"] % n]
            g = m[nm]
            ctx.require(dg(g) == tgt.groups[nm], "owned_copy", "get_returned_changed_group")
            ctx.require((nm in m) and ("no such group" not in m), "manager", "contains")
        return ()

    def _op_delete(self, op):
        ctx = self.ctx
        tgt = self._pick(("owner", "manager"), op["i"])
        if tgt is None or not tgt.groups:
            return
        m = self._mgr(tgt)
        how = op["how"] % 3
        nm = list(tgt.groups)[op["name"] % len(tgt.groups)]
        try:
            if how == 0:
                del m[nm]
                del tgt.groups[nm]
            elif how == 1:
                got = m.pop(nm)
                ctx.require(dg(got) == tgt.groups[nm], "owned_copy", "pop_returned_changed_group")
                del tgt.groups[nm]
            else:
                m.clear()
                tgt.groups.clear()
        except Exception as ex:
            ctx.fail("manager", "delete_raised", repr(ex))
        return (tgt,)

    def _op_iterate(self, op):
        tgt = self._pick(("owner", "manager"), op["i"])
        if tgt is None:
            return
        m = self._mgr(tgt)
        self.ctx.require([k for k, _ in m.items()] == list(tgt.groups) and list(m.keys()) == list(tgt.groups), "manager", "iteration_order")
        return ()

    def _op_mgr_copy(self, op):
        tgt = self._pick(("owner", "manager"), op["i"])
        if tgt is None:
            return
        before = walker.arrays(self._mgr(tgt))
        m2 = self._mgr(tgt).copy()
        self._untouched(self._mgr(tgt), before, "LandmarkManager")
        c = Cell(m2, "manager", "LandmarkManager", None)
        c.groups = OrderedDict(tgt.groups)
        c.had_dim = getattr(tgt, "had_dim", None)
        c.is_copy = True
        self._static_sharing(m2, self._mgr(tgt), "LandmarkManager", ())
        self._put(c, op["dst"])
        return ()

    def _op_assign(self, op):
        ctx = self.ctx
        owner = self._pick(("owner",), op["i"])
        src = self._pick(("manager", "owner"), op["j"])
        if owner is None or src is None:
            return
        if src is owner:
            # x.landmarks = x.landmarks (or via a variable): nothing may be lost
            self.ctx.probe("own_manager_assigned_back")
        m = self._mgr(src)
        md = m[list(src.groups)[0]].n_dims if src.groups else None
        before = walker.arrays(m) if src is not owner else []
        try:
            owner.obj.landmarks = m
            raised = None
        except Exception as ex:
            raised = ex
        self._untouched(m, before, "LandmarkManager(assigned)")
        if md is not None and md != owner.d:
            ctx.require(raised is not None, "manager", "assigned_manager_of_other_dimension",
                        lambda: "%dD landmarks were assigned to a %dD %s" % (md, owner.d, owner.kind))
            if raised is not None:
                ctx.probe("wrong_dimension_assign_rejected")
                return ()
        elif raised is not None:
            ctx.fail("manager", "assign_raised", repr(raised))
            return ()
        if src.kind != owner.kind and src.role == "owner":
            ctx.probe("assign_manager_across_classes")
        owner.groups = OrderedDict(src.groups)
        owner.handle = None         # a whole manager was assigned: earlier references are references to the old one
        owner.had_dim = md
        self._static_sharing(owner.obj.landmarks, m, "LandmarkManager(assigned)", ())
        return (owner,)

    # ---- copies
    def _allowed(self, o):
        al = []
        if isinstance(o, Alignment):
            al += [o.source, o.target]
        if isinstance(o, TransformChain):
            al += list(o.transforms)
        return al

    def _untouched(self, obj, before, kind):
        """Copying (or assigning) must leave the object that was copied alone: the arrays it was made of are still
        the arrays it is made of - a reference fetched earlier (a stored group, its points) still edits THIS object
        and nothing else."""
        after = dict(walker.arrays(obj))
        for p, a in before:
            b = after.get(p)
            ok = b is not None and (b is a or a.size == 0 or np.shares_memory(a, b))
            self.ctx.require(ok, "independent", "copying_replaced_the_arrays_of_the_original_%s" % kind,
                             lambda: "after the call %s of the original is another buffer than before: a reference "
                                     "taken earlier no longer edits the original" % p)

    def _static_sharing(self, a, b, kind, allowed, only=None):
        sh = walker.shared_buffers(a, b, allowed=allowed, only=only)
        self.ctx.probe("copy_pair_static_sharing_checked")
        self.ctx.require(not sh, "independent", "copy_shares_buffer_%s" % kind,
                         lambda: "copy and original share memory at %r" % (sh[:3],))

    def _op_copy(self, op):
        ctx = self.ctx
        src = self._pick(("owner", "value", "other", "manager"), op["i"])
        if src is None:
            return
        before = walker.arrays(src.obj)
        try:
            c = src.obj.copy()
        except Exception as ex:
            ctx.fail("copy", "copy_raised_" + src.kind, repr(ex))
            return ()
        self._untouched(src.obj, before, src.kind)
        d = walker.diff(c, src.obj, skip=SKIP)
        ctx.require(d is None and type(c) is type(src.obj), "copy", "not_equal_" + src.kind, lambda: "copy differs: %s" % d)
        self._static_sharing(c, src.obj, src.kind, self._allowed(src.obj), only=src.param_paths)
        cell = Cell(c, src.role, src.kind, src.d)
        cell.param_paths = src.param_paths
        cell.probe_results = {k: v.copy() for k, v in src.probe_results.items()}   # equal state => equal answers
        cell.groups = None if src.groups is None else OrderedDict(src.groups)
        cell.had_dim = getattr(src, "had_dim", None)
        if src.is_copy:
            ctx.probe("copy_of_copy")
        cell.is_copy = True
        self._put(cell, op["dst"])
        return ()

    def _dims_consistent(self, obj, depth=0):
        """Every landmark group (recursively: groups may carry landmarks themselves) has the dimensionality of
        the object it is attached to; otherwise transforming the owner cannot work and is not attempted."""
        if depth > 6 or not getattr(obj, "has_landmarks", False):
            return True
        for nm in obj.landmarks.group_labels:
            g = obj.landmarks[nm]
            if g.n_dims != obj.n_dims or not self._dims_consistent(g, depth + 1):
                return False
        return True

    def _op_transform(self, op):
        ctx = self.ctx
        owner = self._pick(("owner", "value"), op["i"])
        if owner is None or owner.kind in gen.IMAGE_KINDS:
            return
        if not self._dims_consistent(owner.obj):
            return   # the manager does not compare its groups with the owner's own dimensionality (not claimed)
        if getattr(owner.obj, "has_landmarks", False) and any(owner.obj.landmarks[nm].n_points == 0 for nm in owner.obj.landmarks.group_labels):
            # menpo's square transforms cannot be applied to zero points at all (`reshape` of an empty array, WithDims
            # likewise) - that is not an ownership matter; only the non-square projection below takes empty groups along
            if not (owner.d == 3 and op["how"] >= 3 and op["seed"] & 4):
                self.ctx.probe("owner_with_an_empty_group_not_transformed_by_a_square_transform")
                return
        drop = owner.d == 3 and op["how"] >= 3 and owner.kind in ("PointCloud", "PointUndirectedGraph", "PointDirectedGraph",
                                                                   "LabelledPointUndirectedGraph")
        if drop:
            # a dimension-changing transform: the owner and every landmark group become 2D
            projective = bool(op["seed"] & 4)
            if owner.groups is not None and not owner.groups:
                if projective and op["seed"] & 8:
                    v0 = PointCloud(np.zeros((0, 3)))       # a group that holds no point (yet) is a 3D group all the same
                    owner.obj.landmarks["empty"] = v0
                    owner.groups["empty"] = dg(v0)
                    self.ctx.probe("group_without_points_taken_to_another_dimensionality")
                v3 = PointCloud(rs(op["seed"] ^ 0x77).rand(4, 3))
                owner.obj.landmarks["pre"] = v3          # make sure there is a 3D group to take along
                owner.groups["pre"] = dg(v3)
                owner.digest = dg(owner.obj)
            if projective:
                # a 3 x 4 matrix: scaled orthographic projection onto the first two axes plus a shift
                P = np.zeros((3, 4))
                P[0, 0] = P[1, 1] = 1.0 + (op["seed"] % 5) * 0.25
                P[:2, 3] = [0.5, -1.5]
                P[2, 3] = 1.0
                t = Homogeneous(P)
            else:
                t = WithDims([0, 1])
            self.ctx.probe("owner_taken_to_another_dimensionality")
        else:
            t = gen.homog_transform(["Affine", "Similarity", "Translation", "Rotation"][op["how"] % 4], op["seed"], owner.d)
        try:
            r = t.apply(owner.obj)
        except Exception as ex:
            ctx.fail("copy", "apply_raised_" + owner.kind, repr(ex))
            return ()
        ctx.probe("transform_owner")
        cell = Cell(r, owner.role, owner.kind, 2 if drop else owner.d)
        if owner.groups is not None:
            cell.groups = OrderedDict()
            m, m0 = r.landmarks, owner.obj.landmarks
            ctx.require(list(m.group_labels) == list(owner.groups), "manager", "transform_changed_group_names")
            for nm in m.group_labels:
                exp = np.asarray(t.apply(np.asarray(m0[nm].points)))
                ok = np.shape(m[nm].points) == exp.shape and np.allclose(m[nm].points, exp, rtol=1e-10, atol=1e-10, equal_nan=True)
                ctx.require(ok, "owned_copy", "transformed_owner_landmarks_not_transformed_" + owner.kind)
                cell.groups[nm] = dg(m[nm])
            cell.had_dim = getattr(owner, "had_dim", None)
        self._static_sharing(r, owner.obj, "transformed_" + owner.kind, ())
        if drop and cell.groups:
            # the manager of the 2D result holds 2D groups only: it must take another 2D group and refuse a 3D one
            g2 = rs(op["seed"] ^ 0x51)
            m = r.landmarks
            v2 = PointCloud(g2.rand(3, 2))
            try:
                m["after_drop"] = v2
                cell.groups["after_drop"] = dg(v2)
            except Exception as ex:
                ctx.fail("manager", "refused_group_of_its_own_dimensionality",
                         "after a 3D->2D transform of the owner the manager refused a 2D group: %r" % (ex,))
            try:
                m["bad"] = PointCloud(g2.rand(3, 3))
                ctx.fail("manager", "accepted_second_dimensionality", "a 3D group was stored next to 2D groups after a 3D->2D transform")
            except ValueError:
                ctx.ok()
            cell.digest = dg(r)
        self._put(cell, op["dst"])
        return ()

    # ---- edits
    def _op_edit(self, op):
        """how 0/1: the caller edits a value it may have assigned earlier; 2/3: edits a stored group
        through the manager; 4/5: a public mutator on an 'other' object."""
        ctx = self.ctx
        how = op["how"]
        g = rs(op["seed"])
        if how in (0, 1):
            v = self._pick(("value", "owner"), op["j"])
            if v is None or v.kind in gen.IMAGE_KINDS:
                return
            if not v.obj.points.flags.writeable:
                ctx.probe("value_with_read_only_array_not_edited")
                return ()
            v.obj.points[int(g.randint(v.obj.n_points))] += 3.25
            if getattr(v, "assigned", False):
                ctx.probe("edit_value_after_assign")
            return (v,)
        if how in (2, 3):
            tgt = self._pick(("owner", "manager"), op["i"])
            if tgt is None or not tgt.groups:
                return
            nm = list(tgt.groups)[op["name"] % len(tgt.groups)]
            grp = self._mgr(tgt)[nm]
            if not grp.points.flags.writeable or grp.points.shape[0] == 0:
                return ()
            grp.points[0] -= 1.5
            tgt.groups[nm] = dg(grp)
            ctx.probe("edit_stored_group")
            return (tgt,)
        o = self._pick(("other",), op["i"])
        if o is None:
            return
        try:
            self._mutate(o, op, g)
        except Exception:
            pass
        o.probe_results = {}
        if o.is_copy:
            ctx.probe("mutator_on_copy")
        return (o,)

    def _mutate(self, o, op, g):
        x = o.obj
        if isinstance(x, Alignment) and (op["seed"] % 3 == 0) and hasattr(x, "from_vector_inplace"):
            # a parameter update is a public mutator too (it re-syncs the target from the new state)
            v = np.array(x.as_vector(), dtype=float)
            x.from_vector_inplace(v * 1.03 + 0.01)
            self.ctx.probe("alignment_parameter_update")
        elif isinstance(x, Alignment):
            n, d = x.target.n_points, x.target.n_dims
            x.set_target(PointCloud(np.asarray(x.target.points) + g.randn(n, d) * 0.1))
        elif isinstance(x, PCAVectorModel):
            if op["seed"] & 1:
                x.trim_components(max(1, x.n_components - 1))
            else:
                x.n_active_components = max(1, x.n_active_components - 1)
        elif isinstance(x, LinearVectorModel):
            x.components = x.components * 1.0 + 0.01
        elif isinstance(x, TransformChain):
            x.compose_before_inplace(gen.homog_transform("Translation", op["seed"], 2))
        elif hasattr(x, "compose_before_inplace") and hasattr(x, "h_matrix") and op["seed"] % 4 == 2 and self._relatives(o):
            # in-place composition with its own copy (or origin): the partner is only an argument, and the two stay
            # independent afterwards (no buffer of the one has become a buffer of the other)
            rel = self._relatives(o)
            partner = rel[(op["seed"] >> 3) % len(rel)]
            if op["seed"] & 4:
                x.compose_after_inplace(partner.obj)
            else:
                x.compose_before_inplace(partner.obj)
            self.ctx.probe("inplace_composition_with_own_copy")
            self._static_sharing(x, partner.obj, o.kind, self._allowed(x), only=o.param_paths)
        elif hasattr(x, "compose_before_inplace") and hasattr(x, "h_matrix"):
            if op["seed"] & 1:
                x.compose_before_inplace(x.copy())
            else:
                x.from_vector_inplace(x.as_vector() * 1.01)

    def _relatives(self, o):
        """The other members of o's copy family (copies share the record of their parameter paths)."""
        return [c for c in self.pool if c is not o and c.role == "other" and c.param_paths is o.param_paths
                and type(c.obj) is type(o.obj)]

    def _op_apply(self, op):
        """A public, non-mutating operation on one side of a copy pair: apply the transform to one of three
        fixed point sets of the same shape.  Whatever was done to OTHER objects in between, the same object must
        give the same answer for the same points again (a copy starts with its origin's answers)."""
        ctx = self.ctx
        cands = [c for c in self.pool if c.role == "other" and hasattr(c.obj, "apply") and not isinstance(c.obj, LazyList)]
        if not cands:
            return
        c = cands[op["i"] % len(cands)]
        x = c.obj
        j = op["how"] % 3
        g = rs(1000 + j)
        if isinstance(x, Alignment):
            src = np.asarray(x.source.points, dtype=float)
            W = g.dirichlet(np.ones(src.shape[0]), size=5)
            P = W @ src                      # convex combinations of the source points: inside a PWA's domain
        else:
            P = g.uniform(-2, 2, size=(5, c.d or 2))
        try:
            r = np.asarray(x.apply(P.copy()))
        except Exception as ex:
            if j in c.probe_results:
                ctx.fail("independent", "apply_now_raises_" + c.kind, repr(ex))
            return (c,)
        ctx.probe("apply_on_copy_pair" if c.is_copy else "apply_on_original")
        if j in c.probe_results:
            prev = c.probe_results[j]
            ok = prev.shape == r.shape and float(np.abs(prev - r).max()) <= 1e-10 * (1 + float(np.abs(prev).max()))
            ctx.require(ok, "independent", "answer_changed_by_operations_on_another_object_" + c.kind,
                        lambda: "%s%s: apply() on the same points gives a different result than before although only other objects were used in between"
                                % (c.kind, " (copy)" if c.is_copy else ""))
            ctx.probe("apply_repeated_after_other_activity")
        c.probe_results[j] = r
        return (c,)

    def _op_scribble(self, op):
        """Write a sentinel through every reachable buffer (how odd: only one of them) of one object,
        except what the statement allows to be shared; the object is then retired from the pool."""
        ctx = self.ctx
        c = self._pick(("owner", "value", "other", "manager"), op["i"])
        if c is None:
            return
        which = None if op["how"] % 2 == 0 else op["j"]
        arrs = walker.arrays(c.obj)
        if which is not None and arrs:
            which = which % len(arrs)
        paths = walker.scribble(c.obj, allowed=self._allowed(c.obj), which=which, only=c.param_paths)
        for p in paths:
            if ".data" in p or ".indices" in p or ".indptr" in p:
                ctx.probe("scribble_sparse")
            if "label" in p or "mask" in p and c.kind == "LabelledPointUndirectedGraph":
                ctx.probe("scribble_label_masks")
            if "texture" in p:
                ctx.probe("scribble_texture")
            if "template" in p:
                ctx.probe("scribble_template")
        # the scribbled object is no longer usable: check the others now, then retire it
        self._invariants_skip_groups = True
        self.pool = [x for x in self.pool if x is not c]
        return ()


MACHINE = Ownership
