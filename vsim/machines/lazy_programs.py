"""C19: lazy lists are faithful and truly lazy (programs of LazyList operations).

Two kinds of base list:
 (A) instrumented callables owned by the simulator (log every evaluation, can be
     armed to fail once),
 (B) video-backed lists produced by the real import_video / ffmpeg_importer /
     FFMpegVideoReader code running against the in-process fake ffmpeg peer, with
     per-frame landmark files resolved lazily through the file-system seam.
Reference model: ordinary Python lists of expression trees.
"""
import functools
import itertools
import os
import shutil

import numpy as np

from ..core import Machine, h64
from ..seams.fs import FsSeam
from ..seams.ffmpeg_fake import FakeFFmpeg, VideoSpec, frame_pixels

import menpo.io as mio
from menpo.base import LazyList
from menpo.image import Image
from menpo.shape import PointCloud

_COUNTER = itertools.count()
MAXLEN = 40
POOL = 8
N_FUNCS = 5


class _IndexLike(object):
    """Not a number, not an Integral: only usable as an index."""

    def __init__(self, k):
        self.k = k

    def __index__(self):
        return self.k

    def __repr__(self):
        return "IndexLike(%d)" % self.k


def _mapped_value(fid, cx):
    """What mapped function `fid` returns for (canonical) input cx.  Function 4 is a look-up that finds nothing for
    about half of its inputs and says so the way Python functions do: it returns None - a value like any other."""
    if fid == 4 and h64(repr(cx)) & 1:
        return None
    return ("f", fid, cx)
FPS = [(25, 1), (30, 1), (30000, 1001), (24, 1), (15, 2), (12, 1), (25, 2), (15, 2)]


class InjectedIOError(IOError):
    pass


class Lazy(Machine):
    PROPERTY = "C19"
    NAME = "lazy_programs"
    BUDGET = {"quick": {"runs": 90000, "wall": 75, "digests": 32, "block": 250},
              "thorough": {"runs": 1500000, "wall": 840, "digests": 256, "block": 1000}}
    LEVEL = {"quick": "exploration", "thorough": "exploration"}
    RULE = ("seeded programs of LazyList operations (map, map-per-element, index, numpy index, slice, "
            "fancy index, repeat, +, copy, len, iterate, reversed) over instrumented base lists and "
            "video-backed lists (real import_video/FFMpegVideoReader over a fake ffmpeg peer), with "
            "element-evaluation, spawn, pipe-read, kill and truncation faults; non-trivial = at least "
            "one clause evaluated; distinct = distinct (configuration kind, operation-kind sequence)")
    STATE_MEASURE = "sorted multiset over the pool of (length, expression depth, base kinds)"
    REAL = ["menpo.base.LazyList", "menpo.io.import_video, ffmpeg_importer, FFMpegVideoReader (index/seek/trash bookkeeping)",
            "menpo.io landmark resolution (same_name_video, import_landmark_file), pathlib glob, kernel tmpfs"]
    STUB = ["ffmpeg/ffprobe peer (in-process fake installed as subprocess.Popen; idealised seeking)",
            "builtins.open/io.open proxy (event log + read faults)", "element callables (instrumented)"]
    ASSUMPTIONS = ["the fake ffmpeg is frame-accurate for -ss and only short-reads at end of stream",
                   "faulted reads may fail, never return a wrong element; recovery is required after "
                   "callable, spawn, pipe-read and kill faults, not for truncated videos",
                   "import_video itself may spawn ffprobe; it must not read frames or landmark files"]
    REQUIRED_PROBES = ("read_instrumented", "read_video", "video_backward_reopen", "video_forward_trash",
                       "video_reaped_reopen", "fault_callable_fired", "fault_map_fired",
                       "read_after_fault_recovers", "slice_of_repeat_of_map_of_concat",
                       "fancy_with_duplicates", "empty_list_op", "landmark_attached_lazily",
                       "per_element_map", "negative_index", "index_out_of_range", "numpy_index",
                       "depth_ge_4", "interleaved_videos", "truncated_read_raises", "mixed_video_instrumented",
                       "read_folder_backed", "caller_list_mutated_after_use", "fancy_one_shot_iterable", "partial_iteration",
                       "video_with_large_frames", "equal_but_different_plain_values", "callable_plain_values",
                       "two_overlapping_iterations_of_one_list", "relative_glob_then_working_directory_changes",
                       "index_like_object", "augmented_add_after_adding_nothing", "longer_clip_with_fractional_frame_rate",
                       "per_element_map_from_a_dict_view", "per_element_map_from_an_object_array",
                       "only_a_slice_of_the_imported_video_is_kept")

    @classmethod
    def swarm(cls, rng, tier):
        kind = rng.choice(["plain", "plain", "faulty", "video", "video_faulty"])
        return {"kind": kind, "steps": rng.randint(3, 24 if tier == "quick" else 60),
                "seed": rng.getrandbits(32),
                "w": [rng.choice([0, 1, 1, 2, 4]) for _ in range(12)]}

    KINDS = ["new_base", "map", "map_list", "index", "slice", "fancy", "repeat", "add",
             "add_plain", "copy", "mutate_arg", "iterate"]

    @classmethod
    def draw(cls, rng, cfg):
        kind = cfg["kind"]
        r = rng.random()
        if kind in ("video", "video_faulty") and r < 0.12:
            return {"op": "new_video", "n": rng.randrange(0, 8), "fps": rng.randrange(8),
                    "lm": rng.getrandbits(8), "norm": rng.randrange(2), "exact": rng.randrange(4),
                    "via": rng.randrange(3), "trunc": rng.randrange(12), "dst": rng.randrange(64)}
        if kind in ("video", "video_faulty") and r < 0.18:
            return {"op": "new_folder", "n": rng.randrange(1, 7), "lm": rng.getrandbits(8), "how": rng.randrange(3),
                    "dst": rng.randrange(64)}
        if kind in ("video", "video_faulty") and r < 0.34:
            return {"op": "vread", "v": rng.randrange(8), "k": rng.randrange(-9, 9)}
        if kind in ("faulty", "video_faulty") and r < 0.50:
            fk = rng.choice(["arm", "arm_map", "faulted_read", "faulted_read", "faulted_read"] if kind == "faulty" else
                            ["arm", "faulted_read", "faulted_read", "v_spawn_fail", "v_kill", "v_read_err",
                             "lm_read_err", "v_fault_read", "v_fault_read", "v_fault_read"])
            return {"op": fk, "b": rng.randrange(16), "i": rng.randrange(64), "f": rng.randrange(N_FUNCS),
                    "k": rng.randrange(-9, 9), "how": rng.randrange(6)}
        w = list(cfg["w"])
        w[3] += 2
        k = rng.choices(cls.KINDS, weights=w)[0]
        op = {"op": k, "i": rng.randrange(64), "dst": rng.randrange(64), "rec": rng.randrange(2)}
        if k == "new_base":
            op.update(n=rng.randrange(0, 7), how=rng.randrange(4))
        elif k in ("map", "map_list"):
            op.update(f=rng.randrange(N_FUNCS))
        elif k == "index":
            op.update(k=rng.randrange(-9, 9), np=rng.randrange(4))
        elif k == "slice":
            op.update(a=rng.randrange(-1, 9), b=rng.randrange(-1, 9), s=rng.randrange(-4, 5),
                      na=rng.randrange(3), nb=rng.randrange(3), neg=rng.randrange(4))
        elif k == "fancy":
            op.update(how=rng.randrange(8), seed=rng.getrandbits(16), m=rng.randrange(0, 7))
        elif k == "repeat":
            op.update(n=rng.randrange(0, 4))
        elif k == "add":
            op.update(j=rng.randrange(64))
        elif k == "add_plain":
            op.update(n=rng.randrange(0, 4))
        elif k == "iterate":
            op.update(rev=rng.randrange(3), part=rng.choice([-1, -1, 0, 1, 2, 3]))
        elif k == "mutate_arg":
            op.update(k=rng.randrange(16), how=rng.randrange(4))
        return op

    # ------------------------------------------------------------------ world
    def setup(self):
        self.pool = []        # (LazyList, model list of expressions)
        self.events = []      # instrumented evaluation events
        self.n_bases = 0
        self.armed = {}       # (b, i) -> True : next evaluation of base element fails
        self.armed_map = {}   # fid -> True
        self.videos = []      # VideoSpec
        self.vlists = []      # pool-independent (LazyList, model) of each imported video
        self.folders = []     # dict(n, lm set, how) of each image folder
        self._callable_values = []   # (object, stable token) of callable values put into plain lists
        self.caller_lists = []  # mutable lists the caller passed to an operation earlier (plain lists, callable lists)
        self.root = None
        self.fs = None
        self.ff = None
        self.lm_fault = False
        self.last_video_read = None
        self._last = None
        self.funcs = [self._make_func(fid) for fid in range(N_FUNCS)]

    def teardown(self):
        if self.ff is not None:
            self.ff.uninstall()
            for k, v in self.ff.fired.items():
                self.ctx.fault(k, v)
        if self.fs is not None:
            self.fs.uninstall()
        if self.root is not None:
            try:
                os.chdir("/")
            except Exception:
                pass
            shutil.rmtree(self.root, ignore_errors=True)

    def _ensure_world(self):
        if self.root is None:
            self.root = "/dev/shm/vsim-c19-%d-%d" % (os.getpid(), next(_COUNTER))
            shutil.rmtree(self.root, ignore_errors=True)
            os.makedirs(self.root)
            self.fs = FsSeam(self.root)
            self.ff = FakeFFmpeg(self.cfg["seed"])
            self.fs.install()
            self.ff.install()

    # instrumented callables
    def _base_callable(self, b, i):
        def call():
            self.events.append(("eval", b, i))
            if self.armed.pop((b, i), None):
                self.ctx.fault("element_callable_raises")
                self.ctx.probe("fault_callable_fired")
                raise InjectedIOError("injected failure of base element (%d,%d)" % (b, i))
            return ("v", b, i)
        return call

    def _index_callable(self, b):
        def call(i):
            self.events.append(("eval", b, i))
            if self.armed.pop((b, i), None):
                self.ctx.fault("element_callable_raises")
                self.ctx.probe("fault_callable_fired")
                raise InjectedIOError("injected failure of base element (%d,%d)" % (b, i))
            return ("v", b, i)
        return call

    def _make_func(self, fid):
        def f(x):
            cx = self._canon(x)
            self.events.append(("map", fid, cx))
            if self.armed_map.pop(fid, None):
                self.ctx.fault("mapped_function_raises")
                self.ctx.probe("fault_map_fired")
                raise InjectedIOError("injected failure of mapped function %d" % fid)
            return _mapped_value(fid, cx)
        return f

    def _canon(self, x):
        """Canonical (hashable) form of an element value; decodes video frames."""
        if x is PointCloud:
            return ("callable_value", "PointCloud")
        if callable(x):
            for v, token in self._callable_values:
                if x is v:
                    return token
        if isinstance(x, PointCloud) and not isinstance(x, Image):
            p = np.asarray(x.points)
            return ("lmfile", int(round(p[0, 0])), int(round(p[0, 1])))
        if isinstance(x, Image) and x.pixels.shape == (1, 1, 2):
            px = np.asarray(x.pixels).ravel()
            lms = tuple(sorted((g, round(float(x.landmarks[g].points.sum()), 6)) for g in x.landmarks.group_labels))
            return ("img", int(px[0]) - 100, int(px[1]), lms)
        if isinstance(x, Image):
            px = x.pixels
            if px.dtype != np.uint8:
                px = np.round(px * 255.0).astype(np.uint8)
            arr = np.moveaxis(px, 0, -1)
            h, w = arr.shape[:2]
            found = None
            for spec in self.videos:
                if (spec.h, spec.w) != (h, w):
                    continue
                for k in range(spec.n_frames):
                    if np.array_equal(frame_pixels(spec.vid, k, h, w), arr):
                        found = (spec.vid, k)
                        break
                if found:
                    break
            lms = tuple(sorted((g, round(float(x.landmarks[g].points.sum()), 6))
                               for g in x.landmarks.group_labels))
            if found is None:
                return ("garbage_frame", arr.tobytes().hex()[:24])
            return ("frame", found[0], found[1], lms)
        if isinstance(x, (bool, int, float, str, bytes)) or (isinstance(x, tuple) and x and not isinstance(x[0], str)):
            # "exactly the value": 1, 1.0 and True are equal and are three different values, so are 0.0 and -0.0
            return ("value", type(x).__name__, repr(x))
        return x

    # model evaluation --------------------------------------------------
    def _expect(self, e, ev):
        """Expected value of expression e; appends expected events to ev.
        Raises InjectedIOError where an armed fault would fire (model of faults)."""
        t = e[0]
        if t == "const":
            return self._canon(e[1])
        if t == "base":
            ev.append(("eval", e[1], e[2]))
            if (e[1], e[2]) in self._armed_view:
                self._armed_view.discard((e[1], e[2]))
                raise InjectedIOError()
            return ("v", e[1], e[2])
        if t == "map":
            x = self._expect(e[2], ev)
            ev.append(("map", e[1], x))
            if e[1] in self._armed_map_view:
                self._armed_map_view.discard(e[1])
                raise InjectedIOError()
            return _mapped_value(e[1], x)
        if t == "file":
            fo = self.folders[e[1]]
            if fo["how"] == 2:
                return ("lmfile", e[1], e[2])
            lms = (("PTS", round(float(fo["pts"][e[2]].sum()), 6)),) if (e[2] in fo["lm"] and fo["how"] == 0) else ()
            return ("img", e[1], e[2], lms)
        if t == "frame":
            spec = self.videos[e[1]]
            if e[2] >= spec.real_frames:
                raise ValueError("truncated")
            return ("frame", e[1], e[2], self._lm_expected(spec, e[2]) if e[3] else ())
        raise AssertionError(e)

    def _lm_expected(self, spec, k):
        if k in spec.lm_frames:
            return (("LJSON", round(float(spec.lm_points[k].sum()), 6)),)
        return ()

    @staticmethod
    def _depth(e):
        d = 0
        while e[0] == "map":
            d += 1
            e = e[2]
        return d

    @staticmethod
    def _videos_of(e):
        while e[0] == "map":
            e = e[2]
        return {e[1]} if e[0] == "frame" else set()

    @staticmethod
    def _frames_of(e):
        while e[0] == "map":
            e = e[2]
        return {(e[1], e[2])} if e[0] == "frame" else set()

    @staticmethod
    def _file_prefixes(e):
        while e[0] == "map":
            e = e[2]
        if e[0] == "frame":
            return {"v%d_%d." % (e[1], e[2])}
        if e[0] == "file":
            return {"f%d/im%02d." % (e[1], e[2])}
        return set()

    # ------------------------------------------------------------------ step
    def _put(self, ll, model, dst, prov="base"):
        if len(self.pool) < POOL:
            self.pool.append((ll, model, prov))
            self._last = len(self.pool) - 1
        else:
            self.pool[dst % POOL] = (ll, model, prov)
            self._last = dst % POOL

    def _seam_mark(self):
        return (len(self.events), len(self.fs.events) if self.fs else 0,
                len(self.ff.events) if self.ff else 0)

    def _seam_since(self, mark):
        ev = list(self.events[mark[0]:])
        fs = list(self.fs.events[mark[1]:]) if self.fs else []
        ff = list(self.ff.events[mark[2]:]) if self.ff else []
        return ev, fs, ff

    def _nonreading(self, name, fn):
        """Run an operation that must evaluate nothing."""
        mark = self._seam_mark()
        try:
            out = fn()
        except Exception as e:
            self.ctx.fail("faithful", "op_raised_" + name, "%s: %r" % (name, e))
            return None
        ev, fs, ff = self._seam_since(mark)
        self.ctx.require(not ev and not fs and not ff, "lazy", "evaluation_during_" + name,
                         lambda: "events %r %r %r" % (ev[:4], fs[:4], ff[:4]))
        return out

    def _read(self, name, ll, exprs, fn, seq=True):
        """Run a reading operation `fn` that reads the elements `exprs` in order and
        returns their values (list)."""
        ctx = self.ctx
        self._armed_view = set(self.armed)
        self._armed_map_view = set(self.armed_map)
        exp_ev, exp_vals, exp_exc = [], [], None
        vids, frames, prefixes = set(), set(), set()
        for e in exprs:
            vids |= self._videos_of(e)
            frames |= self._frames_of(e)
            prefixes |= self._file_prefixes(e)
            try:
                exp_vals.append(self._expect(e, exp_ev))
            except InjectedIOError:
                exp_exc = "injected"
                break
            except ValueError:
                exp_exc = "truncated"
                break
        vfaulty = any(self._video_fault_pending(v) or self.videos[v].truncated_at is not None for v in vids)
        lm_plan = None
        if self.lm_fault and (any(fr[1] in self.videos[fr[0]].lm_frames for fr in frames) or
                              any(pf.startswith("f") for pf in prefixes)):
            lm_plan = self.fs.arm([{"kind": "read", "nth": 0, "errno": 5}])
        mark = self._seam_mark()
        got_exc = None
        try:
            vals = [self._canon(v) for v in fn()]
        except InjectedIOError as e:
            got_exc, vals = "injected", None
        except Exception as e:
            got_exc, vals = e, None
        lm_fired = False
        if lm_plan is not None:
            self.fs.disarm()
            self.lm_fault = False
            lm_fired = bool(lm_plan.fired)
            if lm_fired:
                self.ctx.fault("landmark_file_read_eio")
        ev, fs, ff = self._seam_since(mark)
        self.ctx.out(name, repr(vals), repr(type(got_exc).__name__ if got_exc not in (None, "injected") else got_exc), len(ev), len(ff))
        # --- seam events belong only to what was read
        for f in ff:
            if f[0] in ("spawn", "pipe_read", "spawn_fault", "pipe_read_fault", "reaped"):
                vid = f[2] if f[0] == "spawn" else f[1]
                ctx.require(vid in vids, "lazy", "read_touched_unrelated_video",
                            lambda: "read of %s caused %r" % (name, f))
        for f in fs:
            if f[0] == "open":
                ok = any(f[1].startswith(pf) or os.path.basename(f[1]).startswith(pf) for pf in prefixes)
                ctx.require(ok, "lazy", "read_opened_unrelated_file", lambda: "read of %s opened %r" % (name, f))
        if any(pf.startswith("f") for pf in prefixes) and got_exc is None:
            ctx.probe("read_folder_backed")
        if vids:
            ctx.probe("read_video")
            if len(vids) > 1:
                ctx.probe("interleaved_videos")
            if any(self._depth(e) for e in exprs) or any(not self._videos_of(e) and e[0] != "const" for e in exprs):
                ctx.probe("mixed_video_instrumented")
        # --- outcome
        if exp_exc == "injected" and not vfaulty and not lm_fired:
            ctx.require(got_exc == "injected", "faulted_read", "armed_fault_not_raised",
                        lambda: "%s returned %r / raised %r although an element evaluation failed" % (name, vals, got_exc))
            ctx.require(ev == exp_ev, "lazy", "wrong_evaluations_before_fault",
                        lambda: "expected events %r got %r" % (exp_ev, ev))
            self._after_fault = True
            return None
        if vfaulty or exp_exc is not None or lm_fired:
            # relaxed oracle: the read may fail, it may never return wrong data
            if exp_exc == "truncated" and got_exc is not None:
                ctx.probe("truncated_read_raises")
            if got_exc is None:
                if exp_exc is None:
                    ctx.require(vals == exp_vals, "faulted_read", "wrong_value_under_fault",
                                lambda: "%s: expected %r got %r" % (name, exp_vals, vals))
                else:
                    ctx.fail("faulted_read", "value_returned_for_unreadable_element",
                             "%s returned %r" % (name, vals))
            self._after_fault = True
            for v in vids:
                self._clear_video_faults(v)
            return vals
        if got_exc is not None:
            ctx.fail("faithful", "read_raised", "%s raised %r (expected %r)" % (name, got_exc, exp_vals))
            return None
        ctx.require(vals == exp_vals, "faithful", "wrong_value",
                    lambda: "%s: expected %r got %r" % (name, exp_vals, vals))
        ctx.require(ev == exp_ev, "lazy", "wrong_evaluations",
                    lambda: "%s: expected events %r got %r" % (name, exp_ev, ev))
        if ev:
            ctx.probe("read_instrumented")
        if getattr(self, "_after_fault", False):
            ctx.probe("read_after_fault_recovers")
            self._after_fault = False
        # reader path probes
        for f in ff:
            if f[0] == "spawn" and f[1] == "ffmpeg_frames":
                lr = self.last_video_read
                if lr is not None and lr[0] == f[2]:
                    if any(g[0] == "reaped" for g in ff):
                        ctx.probe("video_reaped_reopen")
                    elif f[3] <= lr[1]:
                        ctx.probe("video_backward_reopen")
            if f[0] == "pipe_read" and f[3] > self.videos[f[1]].h * self.videos[f[1]].w * 3 - 1 and \
                    f[3] != self.videos[f[1]].h * self.videos[f[1]].w * 3:
                ctx.probe("video_forward_trash")
        for fr in frames:
            self.last_video_read = fr
        for v in vals:
            if v and v[0] == "frame" and v[3]:
                ctx.probe("landmark_attached_lazily")
        return vals

    def _video_fault_pending(self, v):
        s = self.videos[v]
        cur = s.current
        return s.fail_next_spawn or s.fail_next_read or (cur is not None and (cur.returncode == -9 or getattr(cur, "_cut", False))
                                                           and not getattr(cur, "_kill_seen", False))

    def _clear_video_faults(self, v):
        s = self.videos[v]
        s.fail_next_spawn = False
        s.fail_next_read = False
        if s.current is not None and s.current.returncode == -9:
            # (a cut that no read has run into yet stays pending: poll() still says "running")
            s.current._kill_seen = True

    def step(self, op):
        ctx = self.ctx
        k = op["op"]
        if k == "new_base":
            n, how = op["n"], op["how"] % 4
            b = self.n_bases
            self.n_bases += 1
            if how == 0:
                ll = self._nonreading("init", lambda: LazyList([self._base_callable(b, i) for i in range(n)]))
                model = [("base", b, i) for i in range(n)]
            elif how == 1:
                items = [("c", b, i) for i in range(n)]
                if b % 3 == 1:
                    items = self._twins(b, n)
                ll = self._nonreading("init_from_iterable", lambda: LazyList.init_from_iterable(list(items)))
                model = [("const", v) for v in items]
            elif how == 2:
                f = self._index_callable(b)
                ll = self._nonreading("init_from_iterable_f", lambda: LazyList.init_from_iterable(list(range(n)), f=f))
                model = [("base", b, i) for i in range(n)]
            else:
                f = self._index_callable(b)
                ll = self._nonreading("init_from_index_callable", lambda: LazyList.init_from_index_callable(f, n))
                model = [("base", b, i) for i in range(n)]
            if ll is not None:
                self._put(ll, model, op["dst"])
        elif k == "new_video":
            self._new_video(op)
        elif k == "new_folder":
            self._new_folder(op)
        elif k == "vread":
            if not self.vlists:
                return
            ll, model = self.vlists[op["v"] % len(self.vlists)]
            if not model:
                return
            i = op["k"] % len(model)
            self._read("vread[%d]" % i, ll, [model[i]], lambda: [ll[i]])
        elif k in ("arm", "arm_map", "v_spawn_fail", "v_kill", "v_read_err", "lm_read_err"):
            self._arm(op)
        elif k == "faulted_read":
            self._faulted_read(op)
        elif k == "v_fault_read":
            self._v_fault_read(op)
        else:
            if not self.pool:
                return
            ix = op["i"] % len(self.pool)
            if op.get("rec") and self._last is not None and self._last < len(self.pool):
                ix = self._last
            ll, model, prov = self.pool[ix]
            if not model:
                ctx.probe("empty_list_op")
            self._prov = prov
            getattr(self, "_op_" + k)(op, ll, model)
        # receivers are never mutated: every list still has the model's length
        for ll, model, _p in self.pool:
            n = self._nonreading("len", lambda: len(ll))
            if n is not None:
                ctx.require(n == len(model), "faithful", "length_changed", lambda: "len %r expected %d" % (n, len(model)))
        ctx.state(sorted((len(m), max([self._depth(e) for e in m] or [0]),
                          tuple(sorted({self._base_of(e)[0] for e in m}))) for _, m, _p in self.pool))

    # --- operations on (ll, model)
    def _op_map(self, op, ll, model):
        fid = op["f"] % N_FUNCS
        new = self._nonreading("map", lambda: ll.map(self.funcs[fid]))
        if new is not None:
            m = [("map", fid, e) for e in model]
            if any(self._depth(e) >= 4 for e in m):
                self.ctx.probe("depth_ge_4")
            if all(self._depth(e) <= 6 for e in m):
                self._put(new, m, op["dst"], "map(%s)" % self._prov[:40])

    def _op_map_list(self, op, ll, model):
        fids = [(op["f"] + j) % N_FUNCS for j in range(len(model))]
        flist = [self.funcs[f] for f in fids]
        form = (op["f"] // N_FUNCS + len(model)) % 4
        if form == 2 and flist:
            arg = dict(enumerate(flist)).values()       # one callable per element, in a sized iterable that is no Sequence
            self.ctx.probe("per_element_map_from_a_dict_view")
        elif form == 3 and flist:
            arg = np.empty(len(flist), dtype=object)
            arg[:] = flist
            self.ctx.probe("per_element_map_from_an_object_array")
        else:
            arg = flist
            self.caller_lists.append(flist)
        new = self._nonreading("map_list", lambda: ll.map(arg))
        if new is not None:
            self.ctx.probe("per_element_map")
            m = [("map", f, e) for f, e in zip(fids, model)]
            if all(self._depth(e) <= 6 for e in m):
                self._put(new, m, op["dst"], "map(%s)" % self._prov[:40])

    def _op_index(self, op, ll, model):
        kk = op["k"]
        idx = np.int64(kk) if op["np"] % 4 == 0 else (np.int32(kk) if op["np"] % 4 == 1 and False else kk)
        if op["np"] % 4 == 0:
            self.ctx.probe("numpy_index")
        elif op["np"] % 4 == 3:
            idx = _IndexLike(kk)        # anything with __index__ indexes an ordinary list (PEP 357)
            self.ctx.probe("index_like_object")
        try:
            e = model[kk]
        except IndexError:
            self.ctx.probe("index_out_of_range")
            mark = self._seam_mark()
            try:
                v = ll[idx]
                self.ctx.fail("faithful", "out_of_range_index_returned", "ll[%d] on length %d returned %r" % (kk, len(model), v))
            except IndexError:
                self.ctx.ok()
            except Exception as ex:
                self.ctx.fail("faithful", "out_of_range_index_wrong_exception", repr(ex))
            ev, fs, ff = self._seam_since(mark)
            self.ctx.require(not ev and not fs and not ff, "lazy", "evaluation_during_out_of_range_index")
            return
        if kk < 0:
            self.ctx.probe("negative_index")
        self._read("index[%d]" % kk, ll, [e], lambda: [ll[idx]])

    def _op_slice(self, op, ll, model):
        a = None if op["na"] % 3 == 0 else op["a"] * (-1 if op["neg"] & 1 else 1)
        b = None if op["nb"] % 3 == 0 else op["b"] * (-1 if op["neg"] & 2 else 1)
        s = None if op["s"] == 0 else op["s"]
        sl = slice(a, b, s)
        new = self._nonreading("slice", lambda: ll[sl])
        if new is not None:
            m = model[sl]
            if self._prov.startswith("repeat(map(add("):
                self.ctx.probe("slice_of_repeat_of_map_of_concat")
            self._put(new, m, op["dst"], "slice(%s)" % self._prov[:40])
            if not isinstance(new, LazyList):
                self.ctx.fail("faithful", "slice_not_lazylist", repr(type(new)))

    def _op_fancy(self, op, ll, model):
        n = len(model)
        g = np.random.RandomState(op["seed"])
        m = op["m"]
        if n == 0:
            idx = []
        else:
            idx = [int(v) for v in g.randint(-n, n, size=m)]
        how = op["how"] % 8
        if how == 4:
            arg = (i for i in list(idx))          # generator: can be iterated only once
            self.ctx.probe("fancy_one_shot_iterable")
        elif how == 5:
            arg = iter(list(idx))
            self.ctx.probe("fancy_one_shot_iterable")
        elif how == 6:
            arg = reversed(list(reversed(idx)))
            self.ctx.probe("fancy_one_shot_iterable")
        elif how == 7:
            arg = map(int, [float(i) for i in idx])
            self.ctx.probe("fancy_one_shot_iterable")
        elif how == 0:
            arg = list(idx)
        elif how == 1:
            arg = np.array(idx, dtype=np.int64)
        elif how == 2:
            arg = tuple(idx)
        else:
            stop = min(n, m)
            arg = range(0, stop, 2) if op["seed"] % 2 else range(stop - 1, -1, -1)
            idx = list(arg)
        if len(set(idx)) < len(idx):
            self.ctx.probe("fancy_with_duplicates")
        snap = arg.copy() if isinstance(arg, np.ndarray) else (list(arg) if isinstance(arg, list) else None)
        new = self._nonreading("fancy", lambda: ll[arg])
        if snap is not None:
            same = np.array_equal(arg, snap) if isinstance(arg, np.ndarray) else list(arg) == snap
            self.ctx.require(same, "faithful", "index_argument_modified",
                             lambda: "indexing rewrote the index %s it was given: %r -> %r" % (type(arg).__name__, list(snap), list(arg)))
        if new is not None:
            self._put(new, [model[i] for i in idx], op["dst"], "fancy(%s)" % self._prov[:40])

    def _op_repeat(self, op, ll, model):
        n = op["n"]
        if len(model) * n > MAXLEN:
            return
        new = self._nonreading("repeat", lambda: ll.repeat(n))
        if new is not None:
            m = [e for e in model for _ in range(n)]
            self._put(new, m, op["dst"], "repeat(%s)" % self._prov[:40])

    def _op_add(self, op, ll, model):
        ll2, model2, _p2 = self.pool[op["j"] % len(self.pool)]
        if len(model) + len(model2) > MAXLEN:
            return
        new = self._nonreading("add", lambda: ll + ll2)
        if new is not None:
            m = model + model2
            self._put(new, m, op["dst"], "add(%s)" % self._prov[:40])

    TWINS = [1, 1.0, True, 0, -0.0, 0.0, False, (1, 2), (1.0, 2.0), "1", b"1", -1, -1.0, (0,), (False,), (-0.0,)]

    def _twins(self, b, n):
        """Plain values that compare (and hash) equal to one another without being the same value."""
        self.ctx.probe("equal_but_different_plain_values")
        return [self.TWINS[(5 * b + 3 * i) % len(self.TWINS)] for i in range(n)]

    def _op_add_plain(self, op, ll, model):
        b = self.n_bases
        self.n_bases += 1
        plain = [("p", b, i) for i in range(op["n"])]
        if b % 3 == 1:
            plain = self._twins(b, op["n"])
        if b % 7 == 5:
            # values that happen to be callable (a list of callbacks is still a list of values): reading such an
            # element returns the object the caller put there and never calls it (a call of the first two kinds
            # would also show up as an evaluation event)
            self.ctx.probe("callable_plain_values")
            plain = [[functools.partial(self._base_callable(b, i)), self._base_callable(b, i),
                      functools.partial(int, "7"), PointCloud][(b + i) % 4] for i in range(op["n"])]
            self._callable_values.extend((v, ("callable_value", b, i)) for i, v in enumerate(plain) if v is not PointCloud)
        self.caller_lists.append(plain)
        if b % 4 == 2:
            # the accumulator idiom: start from "this list plus nothing", then grow with +=; as with ordinary lists
            # the list one started from is not touched (checked, like every list, after the step)
            def grow():
                acc = ll + ([] if b % 8 == 2 else ll[0:0])
                acc += plain
                return acc
            self.ctx.probe("augmented_add_after_adding_nothing")
            new = self._nonreading("add_plain", grow)
        else:
            new = self._nonreading("add_plain", lambda: ll + plain)
        if new is not None:
            self._put(new, model + [("const", v) for v in list(plain)], op["dst"], "add(%s)" % self._prov[:40])

    def _op_copy(self, op, ll, model):
        new = self._nonreading("copy", lambda: ll.copy())
        if new is not None:
            self._put(new, list(model), op["dst"], self._prov)

    def _op_len(self, op, ll, model):
        pass  # lengths are compared after every step

    def _op_mutate_arg(self, op, ll, model):
        """The caller edits, in place, a list it passed to an earlier operation (the plain list of
        `lazy + plain`, the list of callables of a per-element map).  An ordinary list built by the
        same operations would be unaffected, so the model does not change."""
        if not self.caller_lists:
            return
        lst = self.caller_lists[op["k"] % len(self.caller_lists)]
        how = op["how"] % 4
        mark = self._seam_mark()
        if how == 0 and lst:
            lst[0] = self.funcs[0] if callable(lst[0]) else ("junk", 0, 0)
        elif how == 1:
            lst.append(self.funcs[1] if (lst and callable(lst[0])) else ("junk", 1, 1))
        elif how == 2:
            del lst[:]
        elif lst:
            lst.reverse()
        self.ctx.probe("caller_list_mutated_after_use")
        ev, fs, ff = self._seam_since(mark)
        self.ctx.require(not ev and not fs and not ff, "lazy", "evaluation_during_caller_list_edit")

    def _op_iterate(self, op, ll, model):
        if op.get("part") is not None and op["part"] >= 0:
            # partial iteration: only the consumed elements may be evaluated (k == 0: iter() alone evaluates nothing)
            import itertools as _it
            k = min(op["part"], len(model))
            self.ctx.probe("partial_iteration")
            self._read("iterate_first_%d" % k, ll, list(model[:k]), lambda: list(_it.islice(iter(ll), k)))
            return
        if op["rev"] % 3 == 0:
            self._read("reversed", ll, list(reversed(model)), lambda: list(reversed(ll)))
        elif op["rev"] % 3 == 2 and len(model) <= 6:
            # two iterations of one list that overlap in time, as over an ordinary list: (x0, x0), (x1, x1), ...
            self.ctx.probe("two_overlapping_iterations_of_one_list")
            self._read("iterate_zip_with_itself", ll, [e for e in model for _ in (0, 1)],
                       lambda: [v for pair in zip(ll, ll) for v in pair])
        else:
            self._read("iterate", ll, list(model), lambda: list(ll))

    # --- faults
    def _arm(self, op):
        k = op["op"]
        if k == "arm":
            # arm a base element that some pool list really contains
            cands = sorted({(e2[1], e2[2]) for _, m, _p in self.pool for e in m
                            for e2 in [self._base_of(e)] if e2[0] == "base"})
            if cands:
                self.armed[cands[(op["b"] * 8 + op["i"]) % len(cands)]] = True
        elif k == "arm_map":
            self.armed_map[op["f"] % N_FUNCS] = True
        elif self.videos:
            s = self.videos[op["b"] % len(self.videos)]
            if k == "v_spawn_fail":
                s.fail_next_spawn = True
            elif k == "v_read_err":
                s.fail_next_read = True
            elif k == "lm_read_err":
                self.lm_fault = True
            elif k == "v_kill":
                if s.current is not None and s.current.returncode is None:
                    if op["how"] % 2:
                        s.current.cut_now([0.25, 0.5, 0.9][op["i"] % 3])
                        if getattr(s.current, "_cut", False):
                            self.ctx.fault("ffmpeg_pipe_cut_mid_frame_unnoticed")
                    else:
                        s.current.kill_now()
                        self.ctx.fault("ffmpeg_process_killed")

    def _faulted_read(self, op):
        """Fault placed inside an operation: arm something element k of a list depends
        on, read it (must raise, never return), read it again (must recover)."""
        if not self.pool:
            return
        ll, model, _p = self.pool[op["i"] % len(self.pool)]
        if not model:
            return
        kk = op["k"] % len(model)
        e = model[kk]
        how = op["how"] % 3
        if how == 1 and e[0] == "map":
            d = (op["b"] % self._depth(e))
            t = e
            for _ in range(d):
                t = t[2]
            self.armed_map[t[1]] = True
        else:
            b = self._base_of(e)
            if b[0] != "base":
                return
            self.armed[(b[1], b[2])] = True
        if how == 2:
            self._read("iterate_with_fault", ll, list(model), lambda: list(ll))
        else:
            self._read("index_with_fault[%d]" % kk, ll, [e], lambda: [ll[kk]])
        self._read("index_after_fault[%d]" % kk, ll, [e], lambda: [ll[kk]])

    def _v_fault_read(self, op):
        """Video fault placed right before a read of that video, then a second
        un-faulted read of the same frame that must succeed."""
        if not self.vlists:
            return
        vi = op["b"] % len(self.vlists)
        ll, model = self.vlists[vi]
        if not model:
            return
        kk = op["k"] % len(model)
        s = self.videos[model[kk][1]]
        how = op["how"] % 6
        if how == 0:
            s.fail_next_spawn = True
        elif how == 1:
            s.fail_next_read = True
        elif how == 2:
            if s.current is not None and s.current.returncode is None:
                s.current.kill_now()
                self.ctx.fault("ffmpeg_process_killed")
        elif how == 3:
            self.lm_fault = True
        elif how == 4:
            s.fail_next_spawn = True
            s.fail_next_read = True
        elif how == 5:
            if s.current is not None and s.current.returncode is None:
                s.current.cut_now([0.25, 0.5, 0.9][op["i"] % 3])
                if getattr(s.current, "_cut", False):
                    self.ctx.fault("ffmpeg_pipe_cut_mid_frame_unnoticed")
        self._read("vread_with_fault[%d]" % kk, ll, [model[kk]], lambda: [ll[kk]])
        self._read("vread_after_fault[%d]" % kk, ll, [model[kk]], lambda: [ll[kk]])

    @staticmethod
    def _base_of(e):
        while e[0] == "map":
            e = e[2]
        return e

    # --- videos
    def _new_video(self, op):
        if len(self.videos) >= 3:
            return
        self._ensure_world()
        ctx = self.ctx
        vid = len(self.videos)
        n = op["n"]
        num, den = FPS[op["fps"] % len(FPS)]
        path = os.path.join(self.root, "v%d.mp4" % vid)
        trunc = None
        if self.cfg["kind"] == "video_faulty" and n >= 2 and op["trunc"] % 4 == 0:
            trunc = 1 + (op["trunc"] // 4) % (n - 1)
            ctx.fault("truncated_video")
        big = op["lm"] % 8 == 0     # one in eight videos has frames larger than any pipe / chunk buffer (66 kB each)
        if big:
            ctx.probe("video_with_large_frames")
        elif den != 1 and n >= 2 and trunc is None and op["exact"] % 4 != 0:
            # (only with the exact frame count of ffprobe: the ffmpeg-text fallback estimates the length from a rounded
            # frame rate, inexact by its own documentation)
            # a clip long enough for a seek to land on another frame if the frame rate were taken a few per cent off
            n += 14
            ctx.probe("longer_clip_with_fractional_frame_rate")
        spec = VideoSpec(vid, path, n, 110 if big else 2, 200 if big else 3, num, den, truncated_at=trunc)
        spec.lm_frames = {k for k in range(n) if (op["lm"] >> k) & 1}
        spec.lm_points = {}
        with self.fs._orig_open(path, "wb") as f:
            f.write(b"not really a video")
        for kf in sorted(spec.lm_frames):
            pts = np.array([[0.5 + kf, 1.0], [1.0, 2.0 + vid], [0.25, 0.5]])
            spec.lm_points[kf] = pts
            self.fs.uninstall()
            try:
                mio.export_landmark_file(PointCloud(pts), os.path.join(self.root, "v%d_%d.ljson" % (vid, kf)))
            finally:
                self.fs.install()
        self.ff.add_video(spec)
        self.videos.append(spec)
        via = op["via"] % 3
        normalize = bool(op["norm"] % 2)
        exact = op["exact"] % 4 != 0
        if self.cfg["kind"] == "video_faulty" and op["trunc"] % 3 == 1 and n >= 1:
            # ffprobe cannot be started this once (too many open files): the import may fail; the next attempt, with
            # nothing wrong any more, is an import like any other
            self.ff.fail_next_probe = True
            try:
                mio.import_video(path, landmark_resolver=None, normalize=normalize, exact_frame_count=exact)
            except Exception:
                ctx.probe("import_failed_when_ffprobe_could_not_start")
            self.ff.fail_next_probe = False
        mark = self._seam_mark()
        try:
            if via == 0:
                from menpo.io.input.video import ffmpeg_importer
                from pathlib import Path
                ll = ffmpeg_importer(Path(path), normalize=normalize, exact_frame_count=exact)
                with_lm = False
            elif via == 1:
                ll = mio.import_video(path, normalize=normalize, exact_frame_count=exact)
                with_lm = True
            else:
                ll = mio.import_video(path, landmark_resolver=None, normalize=normalize, exact_frame_count=exact)
                with_lm = False
        except Exception as e:
            if n == 0:
                # a video without frames: importing may legitimately fail
                self.videos[-1].n_frames = 0
                self.vlists.append((LazyList([]), []))
                return
            ctx.fail("faithful", "import_video_raised", repr(e))
            return
        ev, fs, ff = self._seam_since(mark)
        bad = [f for f in ff if f[0] == "pipe_read" and f[2] > 0] + [f for f in fs if f[0] == "open"]
        ctx.require(not bad, "lazy", "import_video_read_frames_or_landmarks", lambda: repr(bad[:3]))
        if op["lm"] & 64 and n >= 1:
            # the program keeps only a part of the video (here: all of it, as a slice) and lets go of the list that the
            # importer returned
            try:
                part = ll[0:n]
            except Exception as e:
                ctx.fail("faithful", "op_raised_slice", repr(e))
                return
            del ll
            ll = part
            ctx.probe("only_a_slice_of_the_imported_video_is_kept")
        if not exact:
            # n_frames estimated from duration*fps by menpo; our spec is exact so they agree
            pass
        model = [("frame", vid, i, with_lm) for i in range(n)]
        try:
            ln = len(ll)
        except Exception as e:
            ctx.fail("faithful", "len_raised", repr(e))
            return
        ctx.require(ln == n, "faithful", "video_length", lambda: "len %d expected %d (fps %d/%d exact=%r)" % (ln, n, num, den, exact))
        if ln != n:
            return
        self.vlists.append((ll, model))
        self._put(ll, model, op["dst"])

    def _new_folder(self, op):
        """Folder-backed lazy list through the real import_images / import_landmark_files glob importers:
        nothing may be opened until an element is read, and then only that element's files."""
        if len(self.folders) >= 3:
            return
        self._ensure_world()
        ctx = self.ctx
        fid = len(self.folders)
        n, how = op["n"], op["how"] % 3
        d = os.path.join(self.root, "f%d" % fid)
        os.makedirs(d)
        fo = {"n": n, "lm": {k for k in range(n) if (op["lm"] >> k) & 1}, "how": how, "pts": {}}
        import PIL.Image as PILImage
        self.fs.uninstall()
        try:
            for k in range(n):
                PILImage.fromarray(np.array([[100 + fid, k]], dtype=np.uint8)).save(os.path.join(d, "im%02d.png" % k))
                pts = np.array([[float(fid), float(k)], [1.0 + k, 2.0]])
                fo["pts"][k] = pts
                if k in fo["lm"] or how == 2:
                    mio.export_landmark_file(PointCloud(pts), os.path.join(d, "im%02d.pts" % k))
        finally:
            self.fs.install()
        self.folders.append(fo)
        relative = bool(op["lm"] & 128)
        where = d
        if relative:
            # the pattern is spelled relative to the working directory of the moment; the program moves on to
            # another directory (which holds files of the same names with other content) before anything is read
            other = os.path.join(self.root, "elsewhere")
            self.fs.uninstall()
            try:
                os.makedirs(os.path.join(other, "f%d" % fid))
                for k in range(n):
                    PILImage.fromarray(np.array([[177, k]], dtype=np.uint8)).save(os.path.join(other, "f%d" % fid, "im%02d.png" % k))
                    mio.export_landmark_file(PointCloud(np.array([[77.0, float(k)], [7.0, 7.0]])), os.path.join(other, "f%d" % fid, "im%02d.pts" % k))
            finally:
                self.fs.install()
            os.chdir(self.root)
            where = "f%d" % fid
            ctx.probe("relative_glob_then_working_directory_changes")
        mark = self._seam_mark()
        try:
            if how == 0:
                ll = mio.import_images(os.path.join(where, "*.png"), normalize=False, verbose=False)
            elif how == 1:
                ll = mio.import_images(os.path.join(where, "*.png"), normalize=False, landmark_resolver=None, verbose=False)
            else:
                ll = mio.import_landmark_files(os.path.join(where, "*.pts"), verbose=False).map(lambda dct: dct["PTS"])
        except Exception as e:
            ctx.fail("faithful", "glob_import_raised", repr(e))
            return
        finally:
            if relative:
                os.chdir(os.path.join(self.root, "elsewhere"))
        ev, fs, ff = self._seam_since(mark)
        opened = [f for f in fs if f[0] == "open"]
        ctx.require(not opened and not ev and not ff, "lazy", "glob_import_opened_files", lambda: repr(opened[:3]))
        model = [("file", fid, k, how) for k in range(n)]
        try:
            ln = len(ll)
        except Exception as e:
            ctx.fail("faithful", "len_raised", repr(e))
            return
        ctx.require(ln == n, "faithful", "folder_length", lambda: "len %d expected %d" % (ln, n))
        if ln == n:
            self._put(ll, model, op["dst"], "folder")

    def finish(self):
        # disarm all faults, then every list must still read back exactly (receivers unchanged)
        self.armed.clear()
        self.armed_map.clear()
        for v in range(len(self.videos)):
            self._clear_video_faults(v)
        for ll, model, _p in self.pool:
            self._read("final", ll, list(model), lambda ll=ll: list(ll))


MACHINE = Lazy
