"""C16: export/import round trip and overwrite protection in a simulated directory.

Real menpo.io code, real files (tmpfs), with builtins.open/io.open behind a
fault-injecting proxy and ffmpeg replaced by an in-process fake.  Reference model:
path -> Absent | Clean(kind, snapshot) | Foreign(bytes) | Dirty.
"""
import errno
import itertools
import os
import shutil
import warnings
from collections import OrderedDict
from pathlib import Path

import numpy as np

from ..core import Machine, rs
from .. import gen, walker
from ..seams.fs import FsSeam, InjectedOSError
from ..seams.ffmpeg_fake import FakeFFmpeg

import menpo.io as mio
from menpo.image import BooleanImage, Image, MaskedImage
from menpo.io.exceptions import OverwriteError
from menpo.landmark import LandmarkManager
from menpo.model import GMRFVectorModel, PCAModel, PCAVectorModel
from menpo.shape import (LabelledPointUndirectedGraph, PointCloud, PointDirectedGraph, PointTree,
                         PointUndirectedGraph, TriMesh, UndirectedGraph)
from menpo.transform import TransformChain

_COUNTER = itertools.count()
STEMS = ["a", "b", "a.b", "c.d.e"]
DIRS = ["", "sub/"]
IMG_EXTS = [".png", ".bmp", ".tif", ".tiff", ".ppm", ".pgm", ".PNG"]
ERRNOS = [errno.ENOSPC, errno.EIO, errno.EACCES, errno.EMFILE]
LM_KINDS = ["pc2", "pc3", "pc_nan", "pug", "pug_empty", "pdg", "tree", "trimesh", "lpug", "manager", "dict"]
PKL_KINDS = ["shape", "image", "masked", "boolean", "affine", "alignment", "tps", "pwa", "chain", "pcavec",
             "pcamodel", "gmrf", "manager", "container", "with_path", "lpug"]


def undirected(edges):
    return sorted({(int(min(a, b)), int(max(a, b))) for a, b in np.asarray(edges).reshape(-1, 2)})


def shape_edges(o):
    if isinstance(o, TriMesh):
        t = np.asarray(o.trilist)
        return undirected(np.vstack([t[:, [0, 1]], t[:, [1, 2]], t[:, [2, 0]]]))
    if hasattr(o, "adjacency_matrix"):
        A = o.adjacency_matrix
        A = A.toarray() if hasattr(A, "toarray") else np.asarray(A)
        return undirected(np.array(np.nonzero(A)).T)
    return []


class IOWorld(Machine):
    PROPERTY = "C16"
    NAME = "io_world"
    BUDGET = {"quick": {"runs": 60000, "wall": 80, "digests": 24, "block": 50},
              "thorough": {"runs": 150000, "wall": 840, "digests": 96, "block": 200}}
    LEVEL = {"quick": "exploration", "thorough": "fault_enumeration"}
    RULE = ("seeded histories (<= 12 operations) of export_landmark_file (.ljson/.pts), export_pickle (.pkl/.pkl.gz, "
            "protocols 2-5), export_image (png/bmp/tif/tiff/ppm/pgm), export_video (fake ffmpeg) with overwrite "
            "on/off, imports, import->export->re-import of images, foreign files appearing and files being removed, "
            "over few colliding names incl. multi-dot names and eight spellings of each path (str/Path, relative/absolute, ./ and sub/../ forms, ~ and $VAR forms); fault-free and "
            "fault-injecting configurations (open/write/torn write/flush/close/read faults with ENOSPC, EIO, EACCES, "
            "EMFILE) are separate runs; thorough additionally enumerates every fault position of short histories; "
            "non-trivial = at least one clause evaluated; distinct = distinct (configuration kind, op-kind sequence)")
    STATE_MEASURE = "sorted tuple over paths of the model tag (clean kind / foreign / dirty)"
    REAL = ["menpo.io export_* / import_* and every exporter/importer behind them", "pathlib, gzip, json, pickle, numpy.savetxt, Pillow codecs",
            "kernel file system (tmpfs under /dev/shm)"]
    STUB = ["builtins.open / io.open proxy (fault injection, event log; hides fileno)",
            "ffmpeg (in-process fake that overwrites its output path like `ffmpeg -y`)"]
    ASSUMPTIONS = [".pcx left out (Pillow's own PCX codec cannot re-read some tiny images it wrote)",
                   "the check-then-open window of _export and partial files after a failed overwrite=True export are not judged",
                   "an export that reports success although an error was injected into it is judged like any successful export: what it wrote must read back (an error that is swallowed after the data is safe, e.g. on close, changes nothing)",
                   "under an injected fault: the faulted operation may fail and leave its own path dirty; it may never "
                   "damage a refused path or any other path, and un-faulted operations must stay exact"]
    REQUIRED_PROBES = ("overwrite_flag_is_a_numpy_bool", "grey_picture_held_as_rgb", "refused_ljson", "refused_pts", "refused_pickle", "refused_pickle_gz", "refused_image", "refused_video",
                       "refused_foreign", "refused_dirty", "overwrite_longer_by_shorter", "multi_dot_name", "pkl_gz_roundtrip",
                       "float_image", "uint8_image_roundtrip", "import_export_reimport", "nan_landmark", "manager_ge2_groups",
                       "unicode_label", "spelling_0", "spelling_1", "spelling_2", "spelling_3", "spelling_4", "spelling_5", "spelling_6", "spelling_7",
                       "clean_path_read_back_later", "path_reduce_restored", "pts_roundtrip", "empty_edge_set",
                       "pts_large_coordinates", "masked_image_export", "explicit_extension_kwarg", "empty_preexisting_file", "exact_zero_coordinates",
                       "upper_case_extension", "pickled_transform_was_applied_before", "label_with_lone_surrogate",
                       "import_of_a_picture_written_by_another_program", "label_that_selects_no_point",
                       "label_redefined_after_serialisation")

    @classmethod
    def swarm(cls, rng, tier):
        faulty = rng.random() < 0.45
        return {"kind": "faulty" if faulty else "fault_free", "steps": rng.randint(2, 12),
                "w": [rng.choice([0, 1, 1, 2, 3]) for _ in range(9)], "seed": rng.getrandbits(32)}

    OPS = ["export_lm", "export_pickle", "export_image", "export_video", "import", "roundtrip_image",
           "env_foreign", "env_remove", "import"]

    @classmethod
    def draw(cls, rng, cfg):
        w = list(cfg["w"])
        if not any(w[:3]):
            w[0] = 1
        k = rng.choices(cls.OPS, weights=w)[0]
        op = {"op": k, "stem": rng.randrange(4), "dir": rng.choice([0, 0, 1]), "spell": rng.randrange(8),
              "ow": rng.choice([0, 0, 1]), "seed": rng.getrandbits(32), "kind": rng.randrange(16),
              "ext": rng.randrange(7), "proto": rng.choice([2, 2, 3, 4, 5])}
        op["again"] = int(cfg["kind"] == "faulty" and rng.random() < 0.3)   # retry the previous export's target
        if cfg["kind"] == "faulty" and k.startswith(("export", "import", "roundtrip")) and rng.random() < 0.6:
            op.update(fk=rng.randrange(8), fn=rng.choice([0, 0, 1, 2, 3, 5, 8, 13, 21]), fe=rng.randrange(4),
                      keep=rng.choice([0, 1, 7, 64]))
        else:
            op.update(fk=-1, fn=0, fe=0, keep=0)
        return op

    @classmethod
    def exhaustive(cls, tier):
        """Every fault position (k-th open / write with three torn-write classes / flush / close / read) of
        short histories: export over nothing, over an existing file (refused and overwritten), then import."""
        if tier != "thorough":
            return
        base = {"stem": 2, "dir": 0, "spell": 0, "seed": 5, "proto": 2}
        exporters = [("export_lm", 0, 0), ("export_lm", 0, 1), ("export_lm", 8, 0), ("export_pickle", 0, 0),
                     ("export_pickle", 0, 1), ("export_image", 0, 0), ("export_image", 0, 2)]
        for name, kind, ext in exporters:
            for pre in (0, 1, 2):          # nothing there / existing clean file / foreign file
                for ow in (0, 1):
                    for fk in range(6):
                        for fn in range(0, 40 if fk == 1 else 4):
                            for keep in ((0, 3, 64) if fk == 1 else (0,)):
                                ops = []
                                nof = {"fk": -1, "fn": 0, "fe": 0, "keep": 0}
                                if pre == 1:
                                    ops.append(dict(base, op=name, kind=kind, ext=ext, ow=1, **nof))
                                elif pre == 2:
                                    ops.append(dict(base, op="env_foreign", kind=kind, ext=ext, ow=0, **nof, target=name))
                                ops.append(dict(base, op=name, kind=kind + 1 if name != "export_image" else kind, ext=ext, ow=ow,
                                                seed=9, fk=fk, fn=fn, fe=fn % 4, keep=keep))
                                ops.append(dict(base, op="import", kind=kind, ext=ext, ow=0, fk=4 if fk == 4 else -1, fn=fn, fe=1, keep=0,
                                                target=name))
                                ops.append(dict(base, op=name, kind=kind, ext=ext, ow=1, seed=11, **nof))
                                yield {"kind": "faulty", "steps": len(ops), "w": [1] * 9, "seed": 3}, ops

    # ------------------------------------------------------------------ world
    def setup(self):
        warnings.simplefilter("ignore")
        self.root = "/dev/shm/vsim-c16-%d-%d" % (os.getpid(), next(_COUNTER))
        shutil.rmtree(self.root, ignore_errors=True)
        os.makedirs(os.path.join(self.root, "sub"))
        self.cwd = os.getcwd()
        os.chdir(self.root)
        self.env0 = {k: os.environ.get(k) for k in ("HOME", "VSIM_SANDBOX")}
        os.environ["HOME"] = os.environ["VSIM_SANDBOX"] = self.root
        self.fs = FsSeam(self.root)
        self.ff = FakeFFmpeg(self.cfg["seed"])
        self.fs.install()
        self.ff.install()
        self.model = {}   # relpath -> ("clean", kind, snapshot) | ("foreign",) | ("dirty",)
        self.reduce0 = Path.__reduce__
        import PIL.ImageFile as _IF
        import PIL.Image as _PI
        self.pil0 = (_IF.LOAD_TRUNCATED_IMAGES, _PI.MAX_IMAGE_PIXELS)
        import sys
        self._hook = sys.unraisablehook
        sys.unraisablehook = lambda *a: None   # finalisers of half-built gzip objects complain about closed files
        self._labels_of = {}
        self._keep = []
        self.last_ext = {}

    def teardown(self):
        import sys
        sys.unraisablehook = self._hook
        try:
            self.fs.finalise_zombies()
        except Exception:
            pass
        self.ff.uninstall()
        self.fs.uninstall()
        for k, v in self.env0.items():
            if v is None:
                os.environ.pop(k, None)
            else:
                os.environ[k] = v
        try:
            os.chdir(self.cwd)
        except Exception:
            os.chdir("/")
        shutil.rmtree(self.root, ignore_errors=True)
        for k, v in self.ff.fired.items():
            self.ctx.fault(k, v)

    def raw(self, rel):
        with self.fs._orig_open(os.path.join(self.root, rel), "rb") as f:
            return f.read()

    def listing(self):
        out = {}
        for d, _, files in os.walk(self.root):
            for fn in files:
                rel = os.path.relpath(os.path.join(d, fn), self.root)
                out[rel] = self.raw(rel)
        return out

    def spelled(self, rel, spell):
        spell = spell % 8
        ab = os.path.join(self.root, rel)
        self.ctx.probe("spelling_%d" % spell)
        if spell == 0:
            return rel
        if spell == 1:
            return "./" + rel
        if spell == 2:
            return ab
        if spell == 3:
            return Path(rel)
        if spell == 4:
            return Path(ab)
        if spell == 6:
            return "~/" + rel                       # HOME is the sandbox (menpo documents the expansion)
        if spell == 7:
            return Path("$VSIM_SANDBOX") / rel      # so is this variable
        return "sub/../" + rel

    def relname(self, op, ext):
        # extensions are matched case-insensitively by menpo: every exporter also gets mixed-case spellings
        v = (op["seed"] >> 7) % 6
        if v == 0:
            ext = ext.upper()
            self.ctx.probe("upper_case_extension")
        elif v == 1 and ext.count(".") == 2:
            a, b = ext.rsplit(".", 1)
            ext = a + "." + b.upper()          # .pkl.GZ
            self.ctx.probe("upper_case_extension")
        stem = STEMS[op["stem"] % 4]
        if "." in stem:
            self.ctx.probe("multi_dot_name")
        return DIRS[op["dir"] % 2] + stem + ext

    # ------------------------------------------------------------------ objects
    def lm_object(self, kind, seed, force2d=False):
        g = rs(seed)
        k = LM_KINDS[kind % len(LM_KINDS)]
        n = int(g.randint(1, 9))
        if k in ("pc2", "pc3"):
            p = g.uniform(-50, 200, size=(n, 2 if k == "pc2" else 3))
            if seed % 3 == 0:
                # points on an axis / at the origin / on a pixel grid: exact zeros and whole numbers
                p = np.round(p / 40.0) * 40.0
                p[0, int(g.randint(p.shape[1]))] = 0.0
                if seed % 2:
                    p[-1] = 0.0
                self.ctx.probe("exact_zero_coordinates")
            return PointCloud(p)
        if k == "pc_nan":
            p = g.uniform(-50, 200, size=(n + 1, 2))
            p[int(g.randint(n + 1)), int(g.randint(2))] = np.nan
            if g.rand() < 0.3:
                p[0] = np.nan
            self.ctx.probe("nan_landmark")
            return PointCloud(p)
        if k in ("pug", "pdg", "tree", "trimesh", "lpug"):
            sk = {"pug": "PointUndirectedGraph", "pdg": "PointDirectedGraph", "tree": "PointTree", "trimesh": "TriMesh",
                  "lpug": "LabelledPointUndirectedGraph"}[k]
            d = 2 if (g.rand() < 0.7 or force2d) else 3
            o = gen.make_shape(sk, seed, max(n, 3), d)
            if k == "lpug":
                names = ["øye", "a", "眉毛", "zeta", "B", "chin"]
                if seed % 4 == 0:
                    # a label that came from a file name decoded with surrogateescape: a str like any other
                    names = ["left\udc80eye", "a", "\U0001F600", "zeta", "B\u2028", "chin"]
                    self.ctx.probe("label_with_lone_surrogate")
                pts = o.points
                m = pts.shape[0]
                lab = OrderedDict()
                cover = np.zeros(m, dtype=bool)
                for j in g.permutation(len(names))[: int(g.randint(1, 5))]:
                    mk = g.rand(m) < 0.5
                    if mk.any():
                        lab[names[j]] = mk
                        cover |= mk
                if not cover.all() or not lab:
                    lab["rest_" + names[int(g.randint(6))]] = ~cover if lab else np.ones(m, dtype=bool)
                self.ctx.probe("unicode_label")
                if seed % 6 == 1:
                    # an optional part that is not annotated on this shape: a label that selects no point
                    lab2 = OrderedDict()
                    for j_, (nm_, mk_) in enumerate(lab.items()):
                        if j_ == (seed // 6) % len(lab):
                            lab2["optional"] = np.zeros(m, dtype=bool)
                        lab2[nm_] = mk_
                    lab = lab2
                    self.ctx.probe("label_that_selects_no_point")
                o = LabelledPointUndirectedGraph(pts, o.adjacency_matrix, lab)
                if seed % 5 == 2:
                    # a group with a history: it was serialised once, then one of its labels was given other points
                    first = next(iter(lab))
                    try:
                        o.tojson()
                        o = o.add_label(first, list(range(m)))
                        lab[first] = np.ones(m, dtype=bool)
                        self.ctx.probe("label_redefined_after_serialisation")
                    except Exception as ex:
                        self.ctx.fail("roundtrip", "add_label_raised", repr(ex))
                self._labels_of[(tuple(lab), pts.tobytes())] = [(nm, np.nonzero(mk)[0].tolist()) for nm, mk in lab.items()]
            return o
        if k == "pug_empty":
            self.ctx.probe("empty_edge_set")
            return PointUndirectedGraph.init_from_edges(g.uniform(0, 9, size=(max(n, 2), 2)), np.zeros((0, 2), dtype=int))
        if k == "manager":
            mgr = LandmarkManager()
            kinds = [int(v) for v in g.permutation([0, 3, 8, 4, 7, 8])]
            for j, nm in enumerate((["zz", "left eye", "Ünï", "a"] if seed % 5 else ["zz", "gr\udcffp", "Ünï", "a"])[: int(g.randint(2, 5))]):
                mgr[nm] = self.lm_object(kinds[j], seed + j + 1, force2d=True)
            self.ctx.probe("manager_ge2_groups")
            return mgr
        if k == "dict":
            return {"g1": self.lm_object(0, seed + 1), "another": self.lm_object(3, seed + 2)}
        raise ValueError(k)

    def pkl_object(self, kind, seed):
        g = rs(seed)
        k = PKL_KINDS[kind % len(PKL_KINDS)]
        if k == "shape":
            return gen.make_shape(gen.SHAPE_KINDS[seed % 8], seed, 5, 2 if seed & 8 else 3)
        if k == "lpug":
            return self.lm_object(8, seed)
        if k == "image":
            im = gen.make_image("Image", seed)
            im.landmarks["g"] = PointCloud(g.rand(3, 2))
            return im
        if k == "masked":
            return gen.make_image("MaskedImage", seed)
        if k == "boolean":
            return gen.make_image("BooleanImage", seed)
        if k == "affine":
            return gen.homog_transform(gen.HOMOG_KINDS[seed % 7], seed, 2 + (seed >> 4) % 2)
        if k in ("alignment", "tps", "pwa"):
            src = gen.general_points(seed, 6, 2)
            tgt = gen.target_for("AlignmentAffine", seed ^ 3, src)
            kk = {"alignment": gen.ALIGN_KINDS[seed % 5], "tps": "ThinPlateSplines", "pwa": "PiecewiseAffine"}[k]
            al = gen.make_alignment(kk, PointCloud(src), PointCloud(tgt), {})
            if seed & 16:
                # an object with a history: it was used before it is saved (whatever it remembers goes along)
                try:
                    al.apply(src[:4].mean(axis=0, keepdims=True) + 0.01 * g.rand(1, 2))
                    al.apply(PointCloud(src.copy()))
                    self.ctx.probe("pickled_transform_was_applied_before")
                except Exception:
                    pass
            return al
        if k == "chain":
            return TransformChain([gen.homog_transform("Affine", seed, 2), gen.homog_transform("Rotation", seed ^ 1, 2)])
        if k == "pcavec":
            m = PCAVectorModel(g.randn(7, 5), inplace=False)
            m.n_active_components = 2
            return m
        if k == "pcamodel":
            m = PCAModel([PointCloud(g.randn(4, 2)) for _ in range(6)])
            m.trim_components(3)
            return m
        if k == "gmrf":
            gr = UndirectedGraph.init_from_edges(np.array([[0, 1], [1, 2]]), 3)
            return GMRFVectorModel(g.randn(12, 6), gr, sparse=bool(seed & 1), incremental=bool(seed & 2))
        if k == "manager":
            return self.lm_object(9, seed)
        if k == "container":
            return {"list": [self.pkl_object(0, seed + 1), 3, "x"], "arr": g.rand(3), "t": (1, 2.5, None)}
        if k == "with_path":
            o = PointCloud(g.rand(4, 2))
            o.path = Path(self.root) / "sub" / "origin.ljson"
            return o
        raise ValueError(k)

    def _ow(self, op):
        """The caller's overwrite flag: a bool, or what a comparison of arrays / a count yields (a NumPy bool, 0 or 1)."""
        v = bool(op["ow"])
        how = (op["seed"] >> 5) % 4
        if how == 1:
            self.ctx.probe("overwrite_flag_is_a_numpy_bool")
            return np.bool_(v)
        if how == 2:
            return int(v)
        return v

    def img_object(self, kind, seed, ext):
        g = rs(seed)
        h, w = int(g.randint(1, 9)), int(g.randint(1, 10))
        e = ext.lower()
        ch = 3 if e == ".ppm" else (1 if e == ".pgm" else (3 if g.rand() < 0.5 else 1))
        which = kind % 5
        if ch == 3 and which in (0, 1) and (seed >> 3) % 4 == 0:
            # a grey picture held as RGB: three equal channels are three channels
            u = np.repeat(g.randint(0, 256, size=(1, h, w)).astype(np.uint8), 3, axis=0)
            self.ctx.probe("grey_picture_held_as_rgb")
            return (Image(u * (1.0 / 255.0)), u, "u8float") if which == 0 else (Image(u.copy()), u, "u8")
        if which == 4:      # masked image: the pixel data is what is exported
            u = g.randint(0, 256, size=(ch, h, w)).astype(np.uint8)
            mask = g.rand(h, w) < 0.6
            mask.flat[0] = True
            self.ctx.probe("masked_image_export")
            return MaskedImage(u * (1.0 / 255.0), mask=mask), u, "u8float"
        if which == 0:      # eight-bit values held as normalised floats (what import gives)
            u = g.randint(0, 256, size=(ch, h, w)).astype(np.uint8)
            return Image(u * (1.0 / 255.0)), u, "u8float"
        if which == 1:      # uint8 pixels
            u = g.randint(0, 256, size=(ch, h, w)).astype(np.uint8)
            return Image(u.copy()), u, "u8"
        if which == 2:      # arbitrary floats in [0, 1]
            f = g.rand(ch, h, w)
            f.flat[0], f.flat[-1] = 0.0, 1.0
            self.ctx.probe("float_image")
            return Image(f), f, "float"
        m = g.rand(h, w) < 0.5
        return BooleanImage(m), m, "bool"

    # ------------------------------------------------------------------ faults
    def plan(self, op):
        if op.get("fk", -1) < 0 or self.cfg["kind"] != "faulty":
            return None
        kind = ["open", "write", "close", "flush", "read", "write", "stat", "short_write"][op["fk"] % 8]
        return [{"kind": kind, "nth": op["fn"], "errno": ERRNOS[op["fe"] % 4], "keep": op["keep"]}]

    def guarded(self, op, fn):
        """Run one menpo call with the operation's fault plan armed; returns
        (result, exception, fired faults)."""
        faults = self.plan(op)
        plan = self.fs.arm(faults) if faults else None
        res = exc = None
        try:
            res = fn()
        except Exception as e:
            exc = e
        finally:
            if plan is not None:
                self.fs.disarm()
            if self.fs.sweep():
                self.ctx.probe("leaked_write_handle_swept")
        fired = plan.fired if plan is not None else []
        if any(f["kind"] == "short_write" for f in fired):
            # not an error: a raw file took fewer bytes than offered; the operation must still write everything (or raise)
            self.ctx.fault("raw_write_accepted_fewer_bytes")
            fired = [f for f in fired if f["kind"] != "short_write"]
        for f in fired:
            self.ctx.fault("%s_%s" % (f["kind"], errno.errorcode[f["errno"]]))
            if f["kind"] == "write":
                self.ctx.fault("torn_write_keep_%s" % ("0" if f["keep"] == 0 else "some"))
        return res, exc, fired

    # ------------------------------------------------------------------ step
    def step(self, op):
        ctx = self.ctx
        had_zombies = bool(self.fs.zombies)
        if op.get("again") and getattr(self, "_last_export", None) and op["op"] in ("export_lm", "export_pickle", "export_image"):
            # "try again": the same exporter, the same path, overwriting - right after the previous (possibly failed) export
            op = dict(op, ow=1, **self._last_export[1]) if self._last_export[0] == op["op"] else op
            ctx.probe("export_retried_on_same_path")
        if op["op"] in ("export_lm", "export_pickle", "export_image"):
            self._last_export = (op["op"], {"stem": op["stem"], "dir": op["dir"], "ext": op["ext"]})
        before = self.listing()
        touched = getattr(self, "_op_" + op["op"])(op, before)
        if had_zombies:
            # the handles leaked by an EARLIER operation are finalised now, i.e. after this operation was
            # acknowledged; what was acknowledged as clean must still read back
            hit = self.fs.finalise_zombies()
            if hit:
                ctx.probe("leaked_handle_finalised_later")
                ctx.fault("late_finalisation_of_leaked_handle")
                for rel in sorted(set(hit)):
                    m = self.model.get(rel)
                    if m and m[0] == "clean":
                        chk = {"ljson": self._check_lm, "pts": self._check_lm, "pkl": self._check_pickle,
                               "pklgz": self._check_pickle, "img": self._check_image}[m[1]]
                        chk(rel, m[2], "after the late finalisation of a leaked handle,")
        after = self.listing()
        touched = set(touched or ())
        for rel in sorted(set(before) | set(after)):
            if rel in touched or self.model.get(rel, ("",))[0] == "dirty":
                continue   # the content of a dirty path is unknown by definition
            ctx.require(before.get(rel) == after.get(rel), "other_paths_untouched", op["op"],
                        lambda: "%s on %r changed %r" % (op["op"], sorted(touched), rel))
        ctx.require(Path.__reduce__ is self.reduce0, "path_reduce_restored", op["op"],
                    "Path.__reduce__ left monkeypatched after " + op["op"])
        import PIL.ImageFile as _IF
        import PIL.Image as _PI
        now = (_IF.LOAD_TRUNCATED_IMAGES, _PI.MAX_IMAGE_PIXELS)
        ctx.require(now == self.pil0, "process_global_state", "third_party_configuration_changed_by_" + op["op"],
                    lambda: "PIL (LOAD_TRUNCATED_IMAGES, MAX_IMAGE_PIXELS) changed from %r to %r" % (self.pil0, now))
        # model vs disk
        for rel in sorted(after):
            if rel not in self.model:
                self.model[rel] = ("foreign",)
        for rel in [r for r in self.model if r not in after]:
            del self.model[rel]
        # (file bytes are not logged: gzip headers carry the wall-clock mtime and pickled paths the
        # sandbox name; neither enters any verdict)
        ctx.out(op["op"], sorted(after), sorted((r, m[0], m[1] if m[0] == "clean" else "") for r, m in self.model.items()))
        ctx.state(sorted((r, m[0], m[1] if m[0] == "clean" else "") for r, m in self.model.items()))

    # ---- exports
    def _export(self, op, before, rel, call, kind, snapshot, check_import):
        ctx = self.ctx
        existed = rel in before
        state = self.model.get(rel, ("absent",))
        res, exc, fired = self.guarded(op, call)
        label = {"ljson": "ljson", "pts": "pts", "pkl": "pickle", "pklgz": "pickle_gz", "img": "image", "video": "video"}[kind]
        if existed and not op["ow"]:
            ok = isinstance(exc, OverwriteError)
            if not ok and isinstance(exc, InjectedOSError) and any(f["kind"] == "stat" for f in fired):
                # the existence check itself failed (the one narrow relaxation): the export may end with that
                # error instead - it must not go ahead, and the bytes on disk are judged as always
                ctx.probe("existence_check_failed_export_refused_with_that_error")
                ok = True
            ctx.require(ok, "overwrite_protection", "no_OverwriteError_" + label,
                        lambda: "export to existing %r with overwrite=False: %r" % (rel, exc))
            now = self.raw(rel) if os.path.exists(os.path.join(self.root, rel)) else None
            ctx.require(now == before[rel], "overwrite_protection", "refused_export_changed_file_" + label,
                        lambda: "refused export changed the bytes of %r" % rel)
            if ok and isinstance(exc, OverwriteError):
                ctx.probe("refused_" + label)
                if state[0] == "foreign":
                    ctx.probe("refused_foreign")
                if state[0] == "dirty":
                    ctx.probe("refused_dirty")
            return [rel]
        if fired and exc is not None:
            # relaxed: the faulted export may fail; its own path is dirty (content unknown)
            if not isinstance(exc, OSError):
                ctx.probe("fault_surfaced_as_" + type(exc).__name__)
            if os.path.exists(os.path.join(self.root, rel)):
                self.model[rel] = ("dirty",)
            else:
                self.model.pop(rel, None)
            return [rel]
        if fired:
            # the export reported success although an error had been injected into it (it may have retried, or the
            # error hit after the data was safe): a success is a success - what it wrote must read back, as below
            ctx.probe("export_acknowledged_despite_fault_%s_%s" % (label, fired[0]["kind"]))
        if exc is not None:
            ctx.fail("roundtrip", "export_raised_" + label, "export of %s to %r (overwrite=%r, existed=%r) raised %r" % (kind, rel, bool(op["ow"]), existed, exc))
            if os.path.exists(os.path.join(self.root, rel)):
                self.model[rel] = ("dirty",)
            return [rel]
        if existed and len(before[rel]) > len(self.raw(rel)):
            ctx.probe("overwrite_longer_by_shorter")
        self.model[rel] = ("clean", kind, snapshot)
        # immediate import must give equal data
        check_import(rel, snapshot, "immediate")
        return [rel]

    def _op_export_lm(self, op, before):
        pts = (op["ext"] % 3 == 1)
        if pts:
            g = rs(op["seed"])
            span = [300.0, 300.0, 3000.0, 40000.0][op["kind"] % 4]   # thumbnails up to multi-megapixel images
            obj = PointCloud(g.uniform(-20, span, size=(int(g.randint(1, 9)), 2)))
            if span > 1000:
                self.ctx.probe("pts_large_coordinates")
            rel = self.relname(op, ".pts")
            kind = "pts"
        else:
            obj = self.lm_object(op["kind"], op["seed"])
            rel = self.relname(op, ".ljson")
            kind = "ljson"
        fp = self.spelled(rel, op["spell"])
        snap = self._lm_snapshot(obj)
        kw = {}
        if op["proto"] == 3:
            e0 = ".pts" if pts else ".ljson"
            kw["extension"] = [e0, e0[1:], e0.upper()][op["kind"] % 3]
            self.ctx.probe("explicit_extension_kwarg")
        return self._export(op, before, rel, lambda: mio.export_landmark_file(obj, fp, overwrite=self._ow(op), **kw),
                            kind, snap, self._check_lm)

    def _op_export_pickle(self, op, before):
        gz = op["ext"] % 2 == 1
        obj = self.pkl_object(op["kind"], op["seed"])
        rel = self.relname(op, ".pkl.gz" if gz else ".pkl")
        fp = self.spelled(rel, op["spell"])
        snap = obj
        return self._export(op, before, rel, lambda: mio.export_pickle(obj, fp, overwrite=self._ow(op), protocol=op["proto"]),
                            "pklgz" if gz else "pkl", snap, self._check_pickle)

    def _op_export_image(self, op, before):
        ext = IMG_EXTS[op["ext"] % len(IMG_EXTS)]
        img, data, tag = self.img_object(op["kind"], op["seed"], ext)
        rel = self.relname(op, ext)
        fp = self.spelled(rel, op["spell"])
        kw = {}
        if op["proto"] == 3:
            kw["extension"] = [ext, ext[1:], ext.upper()][op["seed"] % 3]
            self.ctx.probe("explicit_extension_kwarg")
        return self._export(op, before, rel, lambda: mio.export_image(img, fp, overwrite=self._ow(op), **kw),
                            "img", (tag, data), self._check_image)

    def _op_export_video(self, op, before):
        rel = self.relname(op, ".mp4")
        fp = self.spelled(rel, op["spell"])
        g = rs(op["seed"])
        frames = [Image(g.randint(0, 256, size=(3, 4, 6)).astype(np.uint8)) for _ in range(2)]
        existed = rel in before
        try:
            mio.export_video(frames, fp, overwrite=self._ow(op))
            exc = None
        except Exception as e:
            exc = e
        if existed and not op["ow"]:
            ok = isinstance(exc, OverwriteError)
            self.ctx.require(ok, "overwrite_protection", "no_OverwriteError_video", lambda: repr(exc))
            self.ctx.require(self.raw(rel) == before[rel], "overwrite_protection", "refused_export_changed_file_video")
            if ok:
                self.ctx.probe("refused_video")
        elif exc is not None:
            self.ctx.fail("roundtrip", "export_raised_video", repr(exc))
        if os.path.exists(os.path.join(self.root, rel)) and not (existed and not op["ow"]):
            self.model[rel] = ("foreign",)
        return [rel]

    # ---- snapshots and per-format equality
    def _lm_snapshot(self, obj):
        def one(o):
            labels = None
            if isinstance(o, LabelledPointUndirectedGraph):
                labels = self._labels_of[(tuple(o.labels), o.points.tobytes())]   # recorded by the generator
            return {"points": np.array(o.points, dtype=float), "edges": shape_edges(o), "labels": labels}
        if hasattr(obj, "n_points"):
            return {"LJSON": one(obj)}
        return {k: one(v) for k, v in obj.items()}

    def _check_lm(self, rel, snap, when, op=None):
        ctx = self.ctx
        res, exc, fired = self.guarded(op or {}, lambda: mio.import_landmark_file(self.spelled(rel, (op or {}).get("spell", 2))))
        tag = "pts" if rel.lower().endswith(".pts") else "ljson"
        if fired:
            if exc is None:
                ok = self._lm_equal(res, snap, tag)
                ctx.require(ok is None, "faulted_import", "returned_wrong_data_" + tag, lambda: "import under a read fault returned: %s" % ok)
            return
        if exc is not None:
            ctx.fail("roundtrip", "import_raised_" + tag, "%s import of %r raised %r" % (when, rel, exc))
            return
        bad = self._lm_equal(res, snap, tag)
        ctx.require(bad is None, "roundtrip", tag + "_" + (bad or "").split(":")[0], lambda: "%s import of %r: %s" % (when, rel, bad))
        if tag == "pts":
            ctx.probe("pts_roundtrip")

    def _lm_equal(self, res, snap, tag):
        if not isinstance(res, dict):
            return "type: import returned %r" % type(res)
        if tag == "pts":
            s = snap["LJSON"]["points"]
            if list(res) != ["PTS"]:
                return "groups: %r" % list(res)
            p = res["PTS"].points
            if p.shape != s.shape:
                return "shape: %r vs %r" % (p.shape, s.shape)
            err = float(np.abs(p - s).max()) if s.size else 0.0
            self.ctx.err("pts", err)
            return None if err <= 5.0e-4 + 1e-9 else "precision: error %.6f exceeds three decimals" % err
        if set(res) != set(snap):
            return "groups: %r vs %r" % (sorted(res), sorted(snap))
        for k, s in snap.items():
            o = res[k]
            p = np.asarray(o.points, dtype=float)
            if p.shape != s["points"].shape or not np.array_equal(p, s["points"], equal_nan=True):
                return "points: group %r: %r vs %r" % (k, p.tolist(), s["points"].tolist())
            if shape_edges(o) != s["edges"]:
                return "edges: group %r: %r vs %r" % (k, shape_edges(o), s["edges"])
            if s["labels"] is not None:
                if not isinstance(o, LabelledPointUndirectedGraph):
                    return "labels: group %r lost its labels" % k
                got = [(d["label"], list(d["mask"])) for d in o.tojson()["labels"]]
                if got != s["labels"]:
                    return "labels: group %r: %r vs %r" % (k, got, s["labels"])
        return None

    def _check_pickle(self, rel, snap, when, op=None):
        ctx = self.ctx
        res, exc, fired = self.guarded(op or {}, lambda: mio.import_pickle(self.spelled(rel, (op or {}).get("spell", 2))))
        tag = "pickle_gz" if rel.lower().endswith(".gz") else "pickle"
        if fired:
            if exc is None:
                d = walker.diff(res, snap, skip=("path",))
                ctx.require(d is None, "faulted_import", "returned_wrong_data_" + tag, lambda: d)
            return
        if exc is not None:
            ctx.fail("roundtrip", "import_raised_" + tag, "%s import of %r raised %r" % (when, rel, exc))
            return
        d = walker.diff(res, snap, skip=("path",))
        ctx.require(d is None and type(res) is type(snap), "roundtrip", tag + "_state_differs",
                    lambda: "%s import of %r (%s): %s" % (when, rel, type(snap).__name__, d))
        if tag == "pickle_gz":
            ctx.probe("pkl_gz_roundtrip")

    def _check_image(self, rel, snap, when, op=None):
        ctx = self.ctx
        tag, data = snap
        res, exc, fired = self.guarded(op or {}, lambda: mio.import_image(self.spelled(rel, (op or {}).get("spell", 2)),
                                                                         normalize=False, landmark_resolver=None))
        bad = None
        if exc is None:
            px = np.asarray(res.pixels)
            if tag in ("u8float", "u8"):
                if px.shape != data.shape or px.dtype != np.uint8 or not np.array_equal(px, data):
                    n = int((px != data).sum()) if px.shape == data.shape else -1
                    bad = "eight_bit: %d of %d eight-bit values changed (%s)" % (n, data.size, tag)
            elif tag == "float":
                if px.shape != data.shape:
                    bad = "shape: %r vs %r" % (px.shape, data.shape)
                else:
                    err = float(np.abs(px.astype(float) / 255.0 - data).max())
                    self.ctx.err("float_image_levels", err * 255.0)
                    if not (err < 1.0 / 255.0):
                        bad = "float: changed by %.3f quantisation levels" % (err * 255.0)
            else:
                exp = data.astype(np.uint8) * 255
                got = px.astype(np.uint8) * 255 if px.dtype == bool else px
                if got.size != exp.size or not np.array_equal(got.reshape(exp.shape), exp):
                    bad = "boolean: mask changed"
        if fired:
            if exc is None:
                ctx.require(bad is None, "faulted_import", "returned_wrong_data_image", lambda: bad)
            return
        if exc is not None:
            ctx.fail("roundtrip", "import_raised_image", "%s import of %r raised %r" % (when, rel, exc))
            return
        ctx.require(bad is None, "roundtrip", "image_" + (bad or "").split(":")[0], lambda: "%s import of %r: %s" % (when, rel, bad))
        if tag in ("u8float", "u8") and bad is None:
            ctx.probe("uint8_image_roundtrip")

    # ---- imports of whatever the model says is there
    def _pick_existing(self, op, want=None):
        rels = sorted(r for r, m in self.model.items() if m[0] == "clean" and (want is None or m[1] in want))
        if not rels:
            return None
        return rels[(op["stem"] * 7 + op["ext"]) % len(rels)]

    def _op_import(self, op, before):
        rel = self._pick_existing(op)
        if rel is None:
            return []
        _, kind, snap = self.model[rel]
        self.ctx.probe("clean_path_read_back_later")
        chk = {"ljson": self._check_lm, "pts": self._check_lm, "pkl": self._check_pickle, "pklgz": self._check_pickle,
               "img": self._check_image}[kind]
        chk(rel, snap, "later", op)
        self.ctx.probe("path_reduce_restored")
        return []

    def _op_roundtrip_image(self, op, before):
        """import (normalize=True) -> export -> re-import: eight-bit data unchanged."""
        ctx = self.ctx
        src = self._pick_existing(op, want=("img",))
        made = []
        if src is None or op["seed"] % 3 == 0:
            # a picture that some other program wrote (a binary PPM, put together by hand: nothing in this process
            # has touched the imaging library on its behalf) - the usual first step of a session is an import
            g = rs(op["seed"] ^ 0xF0)
            h, w = int(g.randint(1, 7)), int(g.randint(1, 7))
            data = g.randint(0, 256, size=(3, h, w)).astype(np.uint8)
            src = DIRS[op["dir"] % 2] + STEMS[(op["stem"] + 1) % 4] + ".ppm"
            with self.fs._orig_open(os.path.join(self.root, src), "wb") as f:
                f.write(b"P6\n%d %d\n255\n" % (w, h) + np.moveaxis(data, 0, -1).tobytes())
            self.model[src] = ("clean", "img", ("u8", data))
            ctx.probe("import_of_a_picture_written_by_another_program")
            made = [src]
        tag, data = self.model[src][2]
        if tag not in ("u8float", "u8"):
            return made
        ext = IMG_EXTS[op["ext"] % len(IMG_EXTS)]
        if (ext.lower() == ".ppm" and data.shape[0] != 3) or (ext.lower() == ".pgm" and data.shape[0] != 1):
            ext = ".png"
        dst = self.relname(op, ext)
        if dst == src:
            return made
        existed = dst in before
        res, exc, fired = self.guarded(op, lambda: mio.export_image(
            mio.import_image(self.spelled(src, 2), landmark_resolver=None), self.spelled(dst, op["spell"]), overwrite=True))
        if fired:
            if os.path.exists(os.path.join(self.root, dst)):
                self.model[dst] = ("dirty",)
            return made + [dst]
        if exc is not None:
            ctx.fail("roundtrip", "import_export_raised_image", "import(normalize=True) of %r then export to %r raised %r" % (src, dst, exc))
            if os.path.exists(os.path.join(self.root, dst)):
                self.model[dst] = ("dirty",)
            return made + [dst]
        self.model[dst] = ("clean", "img", ("u8", data))
        ctx.probe("import_export_reimport")
        self._check_image(dst, ("u8", data), "re-")
        return made + [dst]

    # ---- environment events
    def _op_env_foreign(self, op, before):
        t = op.get("target")
        ext = {"export_lm": ".pts" if op["ext"] % 3 == 1 else ".ljson", "export_pickle": ".pkl.gz" if op["ext"] % 2 else ".pkl",
               "export_image": IMG_EXTS[op["ext"] % len(IMG_EXTS)]}.get(t) if t else \
            [".ljson", ".pts", ".pkl", ".pkl.gz", ".png", ".mp4", ".tif"][op["kind"] % 7]
        rel = self.relname(op, ext)
        g = rs(op["seed"])
        with self.fs._orig_open(os.path.join(self.root, rel), "wb") as f:
            nbytes = 0 if op["seed"] % 4 == 0 else int(g.randint(1, 4000))   # also empty files (touch, failed export)
            if nbytes == 0:
                self.ctx.probe("empty_preexisting_file")
            f.write(bytes(g.randint(0, 256, size=nbytes).astype(np.uint8)))
        self.model[rel] = ("foreign",)
        return [rel]

    def _op_env_remove(self, op, before):
        rels = sorted(before)
        if not rels:
            return []
        rel = rels[op["seed"] % len(rels)]
        os.remove(os.path.join(self.root, rel))
        self.model.pop(rel, None)
        return [rel]


MACHINE = IOWorld
