"""C03: composition law, closure, type soundness, operands intact.

Programs of compose calls (before/after, in place or not, self-composition,
from-vector, copies, pseudoinverses, decompose+recompose) over a pool of long-lived
transforms of one dimensionality, checked after every step against the harness'
own matrix algebra (homogeneous family) or against sequential application of frozen
snapshots of the primitive members (everything else).
"""
import copy as _copy
import warnings

import numpy as np

from ..core import Machine, rs
from .. import gen, walker

from menpo.shape import PointCloud
from menpo.transform import (Affine, Homogeneous, NonUniformScale, Rotation, Similarity,
                             ThinPlateSplines, TransformChain, Translation, UniformScale,
                             WithDims)
from menpo.transform.base.alignment import Alignment
from menpo.transform.piecewiseaffine import PiecewiseAffine

KINDS = gen.HOMOG_KINDS + gen.ALIGN_KINDS + ["TransformChain", "ThinPlateSplines",
                                              "PiecewiseAffine", "WithDims",
                                              "IntHomogeneous", "IntAffine", "IntSimilarity"]
POOL = 8
TOL = 1e-6


def happly(H, x):
    hx = np.hstack([x, np.ones((x.shape[0], 1))]) @ H.T
    return hx[:, :-1] / hx[:, -1:]


def class_predicate(t, H, d):
    """None if the class of t is honest for matrix H, else a description."""
    if not np.all(np.isfinite(H)):
        return "non-finite matrix"
    L, tr, last = H[:d, :d], H[:d, d], H[d]
    eps = 1e-7 * max(1.0, float(np.abs(H).max()))
    if isinstance(t, Affine):
        if np.abs(last - np.eye(d + 1)[d]).max() > eps:
            return "Affine with last row %r" % (last.tolist(),)
    if isinstance(t, Similarity):
        G = L.T @ L
        s2 = np.trace(G) / d
        if np.abs(G - s2 * np.eye(d)).max() > 1e-6 * max(1.0, s2):
            return "Similarity whose linear part is not s*orthogonal: L^T L = %r" % (np.round(G, 6).tolist(),)
    if isinstance(t, Rotation):
        if np.linalg.det(L) <= 0 or abs(np.linalg.det(L) - 1) > 1e-6 or np.abs(tr).max() > eps:
            return "Rotation with det %.6g, translation %r" % (np.linalg.det(L), tr.tolist())
        if np.abs(L.T @ L - np.eye(d)).max() > 1e-6:
            return "Rotation that is not orthogonal"
    if isinstance(t, Translation):
        if np.abs(L - np.eye(d)).max() > eps:
            return "Translation whose linear part is %r" % (np.round(L, 6).tolist(),)
    if isinstance(t, UniformScale):
        if np.abs(L - L[0, 0] * np.eye(d)).max() > eps or np.abs(tr).max() > eps:
            return "UniformScale with matrix %r" % (np.round(H, 6).tolist(),)
    if isinstance(t, NonUniformScale):
        if np.abs(L - np.diag(np.diag(L))).max() > eps or np.abs(tr).max() > eps:
            return "NonUniformScale with matrix %r" % (np.round(H, 6).tolist(),)
    return None


class Entry(object):
    def __init__(self, obj, H=None, prims=None):
        self.obj, self.H, self.prims = obj, H, prims
        self.frozen = False
        self.born = type(obj).__name__
        self.inplace_touched = False

    def prim_list(self):
        if self.H is not None:
            return [("H", self.H.copy())]
        return list(self.prims)


class Compose(Machine):
    PROPERTY = "C03"
    NAME = "compose"
    BUDGET = {"quick": {"runs": 30000, "wall": 75, "digests": 24, "block": 100},
              "thorough": {"runs": 500000, "wall": 840, "digests": 128, "block": 400}}
    LEVEL = {"quick": "exploration", "thorough": "exploration"}
    RULE = ("seeded programs over a pool (<= 8) of transforms of one dimensionality drawn from the 7 homogeneous "
            "classes, the 5 alignment variants, TransformChain, ThinPlateSplines, PiecewiseAffine, WithDims: "
            "compose_before/after (result joins the pool), the in-place variants (accepted or rejected), "
            "self-composition, compose_after_from_vector_inplace, copy, pseudoinverse, decompose+recompose; "
            "non-trivial = at least one clause evaluated; distinct = distinct op-kind sequences")
    STATE_MEASURE = "sorted multiset over the pool of (class name, frozen?)"
    REAL = ["every compose_* method, the class-dispatch ladder in Homogeneous._compose_before/_after, "
            "TransformChain, as_non_alignment, Affine.decompose, pseudoinverse, copy"]
    STUB = []
    ASSUMPTIONS = ["a transform that has become a member of a chain is never again the target of an in-place "
                   "operation (whether composites track later changes of their operands is unspecified)",
                   "a chain is never composed in place with itself",
                   "compositions whose model matrix has condition number > 1e5 or a projective denominator "
                   "< 0.2 on the probe points are skipped (numerical cliffs)",
                   "reference for non-homogeneous members = their own apply() on a deep-copied snapshot",
                   "compositions that feed a thin-plate spline with points magnified far beyond its landmark region "
                   "(|x| > 400 for landmarks within +-44) are skipped: catastrophic cancellation, not a defect"]
    REQUIRED_PROBES = ("ladder_swallow_subclass", "ladder_swallowed_by_superclass", "ladder_similarity_family",
                       "ladder_affine_family", "chain_fallback", "inplace_accepted",
                       "inplace_rejected", "alignment_operand", "alignment_inplace_target", "self_composition",
                       "inplace_on_result_then_operands_probed", "decompose_recompose", "pwa_in_domain_law",
                       "chain_inplace", "from_vector_inplace", "integer_dtype_parameters",
                       "projective_matrix_with_zero_corner", "operand_updated_in_place_then_same_composition_repeated")

    @classmethod
    def swarm(cls, rng, tier):
        d = 3 if rng.random() < 0.35 else 2
        ks = [k for k in range(len(KINDS)) if d == 2 or KINDS[k] not in ("ThinPlateSplines", "PiecewiseAffine")]
        kinds = rng.sample(ks, rng.randint(2, 6))
        return {"steps": rng.randint(4, 30 if tier == "quick" else 120), "d": d, "kinds": kinds,
                "seed": rng.getrandbits(32)}

    @classmethod
    def draw(cls, rng, cfg):
        r = rng.random()
        if r < 0.2:
            return {"op": "new", "kind": rng.choice(cfg["kinds"]), "seed": rng.getrandbits(32), "dst": rng.randrange(64)}
        if r < 0.5:
            return {"op": "compose", "i": rng.randrange(64), "j": rng.randrange(64), "after": rng.randrange(2),
                    "dst": rng.randrange(64), "rec": rng.randrange(3)}
        if r < 0.78:
            return {"op": "inplace", "i": rng.randrange(64), "j": rng.randrange(64), "after": rng.randrange(2),
                    "rec": rng.randrange(3)}
        if r < 0.81:
            return {"op": "from_vector", "i": rng.randrange(64), "seed": rng.getrandbits(16)}
        if r < 0.83:
            return {"op": "recompose", "i": rng.randrange(64), "j": rng.randrange(64), "after": rng.randrange(2),
                    "dst": rng.randrange(64), "rec": rng.randrange(3), "seed": rng.getrandbits(16)}
        if r < 0.88:
            return {"op": "copy", "i": rng.randrange(64), "dst": rng.randrange(64)}
        if r < 0.93:
            return {"op": "pinv", "i": rng.randrange(64), "dst": rng.randrange(64)}
        return {"op": "decompose", "i": rng.randrange(64)}

    @classmethod
    def exhaustive(cls, tier):
        """All ordered class pairs x {before,after} x {in place, not} as 2-step programs,
        followed by one more non-in-place composition with each class (3rd step)."""
        if tier != "thorough":
            return
        for d in (2, 3):
            ks = [k for k in range(len(KINDS)) if d == 2 or KINDS[k] not in ("ThinPlateSplines", "PiecewiseAffine")]
            for a in ks:
                for b in ks:
                    for after in (0, 1):
                        for inplace in (0, 1):
                            for c in ks[:12:3]:
                                ops = [{"op": "new", "kind": a, "seed": 11 + a, "dst": 0},
                                       {"op": "new", "kind": b, "seed": 23 + b, "dst": 1},
                                       {"op": "new", "kind": c, "seed": 37 + c, "dst": 2},
                                       {"op": "inplace" if inplace else "compose", "i": 0, "j": 1, "after": after, "dst": 3, "rec": 0},
                                       {"op": "compose", "i": 0 if inplace else 3, "j": 2, "after": 1 - after, "dst": 4, "rec": 0},
                                       {"op": "pinv", "i": 4, "dst": 5}]
                                yield {"steps": len(ops), "d": d, "kinds": [a, b, c], "seed": 5, "kind": "exhaustive"}, ops

    # ------------------------------------------------------------------
    def setup(self):
        warnings.simplefilter("ignore")
        self.d = self.cfg["d"]
        self.pool = []
        self._last = None
        g = rs(self.cfg["seed"])
        k = 3
        ys, xs = np.meshgrid(np.arange(k), np.arange(k), indexing="ij")
        self.S = np.stack([ys.ravel(), xs.ravel()], 1).astype(float) * 40.0 - 40.0 + g.uniform(-4, 4, size=(9, 2))
        self.X = g.uniform(-3.0, 3.0, size=(6, self.d))

    def _put(self, e, dst):
        if len(self.pool) < POOL:
            self.pool.append(e)
            self._last = len(self.pool) - 1
        else:
            # never evict an entry that is referenced by a chain? harmless: chains keep their own refs
            self.pool[dst % POOL] = e
            self._last = dst % POOL
        return e

    def _pick(self, op, key):
        if key == "i" and op.get("rec") == 1 and self._last is not None and self._last < len(self.pool):
            return self.pool[self._last]
        return self.pool[op[key] % len(self.pool)]

    def _make(self, kind, seed):
        d = self.d
        if kind in gen.HOMOG_KINDS:
            return Entry(gen.homog_transform(kind, seed, d), H=gen.homog_matrix(kind, seed, d))
        if kind.startswith("Int"):
            # parameters given as an integer ndarray (signed permutation x integer scale, integer translation)
            g = rs(seed)
            perm = g.permutation(d)
            L = np.zeros((d, d), dtype=np.int64)
            if kind == "IntSimilarity":
                k = int(g.randint(1, 4))
                for r_, c_ in enumerate(perm):
                    L[r_, c_] = k * (1 if g.rand() < 0.5 else -1)
            else:
                for r_, c_ in enumerate(perm):
                    L[r_, c_] = int(g.randint(1, 4)) * (1 if g.rand() < 0.5 else -1)
                if kind != "IntSimilarity" and d > 1:
                    L[0, perm[1]] += int(g.randint(0, 2))   # integer shear, still invertible (triangular in the permuted basis)
            H = np.eye(d + 1, dtype=np.int64)
            H[:d, :d] = L
            H[:d, d] = g.randint(-4, 5, size=d)
            if kind == "IntHomogeneous" and g.rand() < 0.6:
                # integer projective row: products with integer translations hit a corner entry of exactly 0
                H[d, :d] = g.randint(-1, 2, size=d)
                H[d, d] = int(g.randint(0, 2))
            if abs(np.linalg.det(H.astype(float))) < 0.5:
                H[d, :d] = 0
                H[d, d] = 1
                if abs(np.linalg.det(H.astype(float))) < 0.5:
                    H[:d, :d] = np.eye(d, dtype=np.int64) * 2
            cls_ = {"IntHomogeneous": Homogeneous, "IntAffine": Affine, "IntSimilarity": Similarity}[kind]
            self.ctx.probe("integer_dtype_parameters")
            return Entry(cls_(H.copy()), H=H.astype(float))
        if kind in gen.ALIGN_KINDS:
            src = gen.general_points(seed, 6, d)
            tgt = gen.target_for(kind, seed ^ 0x31, src, noise=0.02)
            opts = {"rotation": bool(seed & 1) or True, "allow_mirror": bool(seed & 2)}
            al = gen.make_alignment(kind, PointCloud(src), PointCloud(tgt), opts)
            return Entry(al, H=np.array(al.h_matrix, dtype=float))
        if kind == "ThinPlateSplines":
            g = rs(seed)
            T = self.S * g.uniform(0.9, 1.1) + g.uniform(-2, 2, size=self.S.shape)
            t = ThinPlateSplines(PointCloud(self.S.copy()), PointCloud(T))
            return Entry(t, prims=[("obj", _copy.deepcopy(t))])
        if kind == "PiecewiseAffine":
            g = rs(seed)
            T = self.S * g.uniform(0.9, 1.1) + g.uniform(-2, 2, size=self.S.shape)
            t = PiecewiseAffine(PointCloud(self.S.copy()), PointCloud(T))
            return Entry(t, prims=[("obj", _copy.deepcopy(t))])
        if kind == "WithDims":
            perm = [1, 0] if self.d == 2 else [[2, 0, 1], [1, 2, 0], [0, 2, 1]][seed % 3]
            t = WithDims(perm)
            return Entry(t, prims=[("obj", _copy.deepcopy(t))])
        if kind == "TransformChain":
            a = self._make(gen.HOMOG_KINDS[seed % 7], seed ^ 0x11)
            b = self._make(gen.HOMOG_KINDS[(seed >> 3) % 7], seed ^ 0x22)
            t = TransformChain([a.obj, b.obj])
            return Entry(t, prims=a.prim_list() + b.prim_list())
        raise ValueError(kind)

    # model evaluation
    def _ref(self, prims, x):
        for kind, p in prims:
            x = happly(p, x) if kind == "H" else np.asarray(p.apply(x.copy()))
        return x

    def _chain_ok(self, prims):
        """The homogeneous members of a non-homogeneous composite, multiplied up, must stay as well conditioned as
        a single admitted matrix (two implementations of x -> Lx + t differ by ~cond * eps)."""
        Hc = np.eye(self.d + 1)
        for kind, p in prims:
            if kind == "H":
                Hc = p @ Hc
                if not self._ok_numerics(Hc):
                    return False
        return True

    def _cliff(self, prims):
        """True if the probe points reach a thin-plate spline far outside its landmark region: r^2 log r^2
        with weights that sum to zero cancels catastrophically there (observed: 1.6e-6 relative between two
        mathematically identical evaluation orders after a 1e5-fold magnification)."""
        x = self.X
        try:
            for kind, p in prims:
                if kind == "obj" and isinstance(p, ThinPlateSplines) and np.abs(x).max() > 400.0:
                    return True
                x = happly(p, x) if kind == "H" else np.asarray(p.apply(x.copy()))
        except Exception:
            return False
        return False

    def _ok_numerics(self, H):
        if np.linalg.cond(H) > 1e5 or np.abs(H).max() > 1e6:
            return False
        w = np.hstack([self.X, np.ones((self.X.shape[0], 1))]) @ H[-1]
        # every probe point stays clear of the line/plane that the map sends to infinity; the corner entry itself
        # may be anything, also exactly zero (a projective matrix is defined up to scale, not up to its corner)
        if abs(H[-1, -1]) <= 1e-3 * np.abs(H[-1]).max():
            self.ctx.probe("projective_matrix_with_zero_corner")
        return np.abs(w).min() > 0.2 * np.abs(H[-1]).max()

    def _check_entry(self, e, why):
        """Law / operands-intact: the entry's map equals its model on the probe points."""
        ctx = self.ctx
        prims = e.prim_list()
        exp = exp_exc = None
        try:
            exp = self._ref(prims, self.X)
        except Exception as ex:
            exp_exc = ex
        got = got_exc = None
        try:
            got = np.asarray(e.obj.apply(self.X.copy()))
        except Exception as ex:
            got_exc = ex
        cls = type(e.obj).__name__
        if exp_exc is not None or got_exc is not None:
            same = exp_exc is not None and got_exc is not None and type(exp_exc) is type(got_exc)
            ctx.require(same, "law", why + "_exception_mismatch_" + cls,
                        lambda: "%s: reference %r, transform %r" % (cls, exp_exc, got_exc))
            return
        if any(k == "obj" and isinstance(p, PiecewiseAffine) for k, p in prims):
            ctx.probe("pwa_in_domain_law")
        err = float(np.abs(got - exp).max() / max(1.0, np.abs(exp).max())) if got.shape == exp.shape else float("inf")
        ctx.err("law", err)
        ctx.out(why, cls, got)
        ctx.require(err <= TOL, "law", why + "_" + cls,
                    lambda: "%s (born %s): apply differs from the reference composition by %.3g (relative)\nmodel=%r" % (cls, e.born, err, [p if k == "H" else type(p).__name__ for k, p in prims][:4]))
        if e.H is not None and hasattr(e.obj, "h_matrix"):
            Hn = np.asarray(e.obj.h_matrix, dtype=float)
            ok = Hn.shape == e.H.shape and bool(np.all(np.isfinite(Hn)))
            if ok:
                k = int(np.argmax(np.abs(e.H)))       # compared up to scale, normalised at the model's largest entry
                with np.errstate(all="ignore"):
                    dev = np.abs(Hn / Hn.flat[k] - e.H / e.H.flat[k]).max()
                ok = bool(dev <= TOL)
            ctx.require(ok, "law", why + "_h_matrix_" + cls,
                        lambda: "%s: h_matrix %r expected %r" % (cls, Hn.tolist(), e.H.tolist()))

    def _check_class(self, e, where):
        if e.H is None or not isinstance(e.obj, Homogeneous):
            return
        bad = class_predicate(e.obj, np.asarray(e.obj.h_matrix, dtype=float), self.d)
        self.ctx.require(bad is None, "class_honest", where + "_" + type(e.obj).__name__,
                         lambda: "%s: %s" % (where, bad))
        cond = np.linalg.cond(np.asarray(e.obj.h_matrix, dtype=float))
        self.ctx.require(cond < 1e8, "closure", "singular_result_" + type(e.obj).__name__, lambda: "cond %g" % cond)

    def _invariants(self):
        for e in self.pool:
            self._check_entry(e, "pool_member_changed")
        self.ctx.state(sorted((type(e.obj).__name__, e.frozen) for e in self.pool))

    # ------------------------------------------------------------------
    def step(self, op):
        getattr(self, "_op_" + op["op"])(op)
        self._invariants()

    def _op_new(self, op):
        kind = KINDS[op["kind"] % len(KINDS)]
        if self.d == 3 and kind in ("ThinPlateSplines", "PiecewiseAffine"):
            kind = "Affine"
        e = self._make(kind, op["seed"])
        self._check_class(e, "constructed")
        self._put(e, op["dst"])

    def _ladder_probe(self, a, b):
        ctx = self.ctx
        A, B = a.obj, b.obj
        if not (isinstance(A, Homogeneous) and isinstance(B, Homogeneous)):
            ctx.probe("chain_fallback")
            return
        if isinstance(B, type(A)):
            ctx.probe("ladder_swallow_subclass")
        elif isinstance(A, type(B)):
            ctx.probe("ladder_swallowed_by_superclass")
        elif isinstance(A, Similarity) and isinstance(B, Similarity):
            ctx.probe("ladder_similarity_family")
        elif isinstance(A, Affine) and isinstance(B, Affine):
            ctx.probe("ladder_affine_family")
        else:
            ctx.probe("ladder_homogeneous")
        if isinstance(A, Alignment) or isinstance(B, Alignment):
            ctx.probe("alignment_operand")

    def _op_compose(self, op):
        ctx = self.ctx
        if not self.pool:
            return
        a, b = self._pick(op, "i"), self._pick(op, "j")
        after = bool(op["after"])
        both_h = a.H is not None and b.H is not None
        if both_h:
            H = (a.H @ b.H) if after else (b.H @ a.H)
            if not self._ok_numerics(H):
                return
        else:
            prims = (b.prim_list() + a.prim_list()) if after else (a.prim_list() + b.prim_list())
            if len(prims) > 8 or self._cliff(prims) or not self._chain_ok(prims):
                return
        da, db = walker.digest(a.obj), walker.digest(b.obj)
        try:
            r = a.obj.compose_after(b.obj) if after else a.obj.compose_before(b.obj)
        except Exception as ex:
            ctx.fail("law", "compose_raised_%s_%s" % (type(a.obj).__name__, type(b.obj).__name__), repr(ex))
            return
        self._ladder_probe(a, b)
        if a is b:
            ctx.probe("self_composition")
        ctx.require(walker.digest(a.obj) == da and walker.digest(b.obj) == db, "operands_intact",
                    "non_inplace_changed_operand_%s_%s" % (type(a.obj).__name__, type(b.obj).__name__),
                    lambda: "compose_%s modified an operand" % ("after" if after else "before"))
        ctx.require(r is not a.obj and r is not b.obj, "operands_intact", "result_is_operand")
        if both_h:
            e = Entry(r, H=H)
            ctx.require(isinstance(r, Homogeneous) and not isinstance(r, TransformChain), "closure",
                        "not_homogeneous_%s_%s" % (type(a.obj).__name__, type(b.obj).__name__),
                        lambda: "result class %s" % type(r).__name__)
            ctx.require(not isinstance(r, Alignment), "closure",
                        "result_is_alignment_%s_%s" % (type(a.obj).__name__, type(b.obj).__name__),
                        lambda: "result class %s" % type(r).__name__)
            if not isinstance(r, Homogeneous):
                return
            self._check_entry(e, "composite")
            self._check_class(e, "result")
        else:
            e = Entry(r, prims=prims)
            self._check_entry(e, "composite")
            if isinstance(r, TransformChain):
                a.frozen = b.frozen = True
        if a.inplace_touched or b.inplace_touched:
            ctx.probe("inplace_on_result_then_operands_probed")
        self._put(e, op["dst"])

    def _op_inplace(self, op):
        ctx = self.ctx
        if not self.pool:
            return
        a, b = self._pick(op, "i"), self._pick(op, "j")
        if a.frozen:
            return
        if isinstance(a.obj, TransformChain) and (a is b or b.obj is a.obj):
            return
        if not hasattr(a.obj, "compose_before_inplace"):
            return
        after = bool(op["after"])
        if a.H is not None and b.H is not None:
            H = (a.H @ b.H) if after else (b.H @ a.H)
            if not self._ok_numerics(H):
                return
        else:
            H = None
            if a.H is None and len(a.prims) + len(b.prim_list()) > 8:
                return
            if a.H is None:
                newp = (b.prim_list() + a.prims) if after else (a.prims + b.prim_list())
                if self._cliff(newp) or not self._chain_ok(newp):
                    return
        da, db = walker.digest(a.obj), walker.digest(b.obj)
        name = "%s_%s" % (type(a.obj).__name__, type(b.obj).__name__)
        try:
            if after:
                a.obj.compose_after_inplace(b.obj)
            else:
                a.obj.compose_before_inplace(b.obj)
        except Exception as ex:
            ctx.probe("inplace_rejected")
            ctx.require(walker.digest(a.obj) == da, "inplace", "rejected_call_changed_target_" + name,
                        lambda: "rejected in-place composition (%r) changed its target" % (ex,))
            ctx.require(walker.digest(b.obj) == db, "operands_intact", "rejected_inplace_changed_operand_" + name)
            return
        ctx.probe("inplace_accepted")
        if isinstance(a.obj, Alignment):
            ctx.probe("alignment_inplace_target")
        if a is b:
            ctx.probe("self_composition")
        else:
            ctx.require(walker.digest(b.obj) == db, "operands_intact", "inplace_changed_operand_" + name)
        a.inplace_touched = True
        if a.H is not None:
            if H is None:
                ctx.fail("inplace", "homogeneous_target_accepted_non_homogeneous_" + name, "accepted")
                return
            a.H = H
            self._check_entry(a, "inplace_same_map")
            self._check_class(a, "inplace_target")
        else:
            a.prims = (b.prim_list() + a.prims) if after else (a.prims + b.prim_list())
            if isinstance(a.obj, TransformChain):
                b.frozen = True
                ctx.probe("chain_inplace")
            self._check_entry(a, "inplace_same_map")

    def _op_from_vector(self, op):
        ctx = self.ctx
        if not self.pool:
            return
        a = self._pick(op, "i")
        if a.frozen or a.H is None or not hasattr(a.obj, "compose_after_from_vector_inplace"):
            return
        try:
            v = np.array(a.obj.as_vector(), dtype=float)
            g = rs(op["seed"])
            v = v * (1.0 + 0.05 * g.rand(*v.shape)) + 0.01 * g.rand(*v.shape)
            if isinstance(a.obj, Rotation):
                v = v / np.linalg.norm(v)
            other = a.obj.from_vector(v)
            Ho = np.array(other.h_matrix, dtype=float)
        except Exception:
            return
        H = a.H @ Ho
        if not self._ok_numerics(H):
            return
        try:
            a.obj.compose_after_from_vector_inplace(v)
        except Exception as ex:
            ctx.fail("inplace", "compose_after_from_vector_inplace_raised_" + type(a.obj).__name__, repr(ex))
            return
        ctx.probe("from_vector_inplace")
        a.H = H
        a.inplace_touched = True
        self._check_entry(a, "from_vector_inplace_same_map")
        self._check_class(a, "inplace_target")

    def _op_recompose(self, op):
        """a.compose(b); b's parameters are updated in place (from_vector_inplace); the very same call again: the second
        result is the composition of the operands as they are NOW."""
        if not self.pool or "seed" not in op:
            return
        a, b = self._pick(op, "i"), self._pick(op, "j")
        if a.H is None or b.H is None or b.frozen or isinstance(b.obj, (Alignment, Rotation)) \
                or not hasattr(b.obj, "from_vector_inplace"):
            return
        try:
            v = np.array(b.obj.as_vector(), dtype=float)
            if v.ndim < 1:
                return
            g = rs(op["seed"])
            v = v * (1.0 + 0.05 * g.rand(*v.shape)) + 0.01 * g.rand(*v.shape)
            Ho = np.array(b.obj.from_vector(v).h_matrix, dtype=float)
        except Exception:
            return
        if not self._ok_numerics(Ho) or not self._ok_numerics((a.H @ Ho) if op["after"] else (Ho @ a.H)):
            return
        try:
            a.obj.compose_after(b.obj) if op["after"] else a.obj.compose_before(b.obj)     # result not kept
            b.obj.from_vector_inplace(v)
        except Exception as ex:
            self.ctx.fail("inplace", "from_vector_inplace_raised_" + type(b.obj).__name__, repr(ex))
            return
        self.ctx.probe("operand_updated_in_place_then_same_composition_repeated")
        b.H = Ho
        b.inplace_touched = True
        self._check_entry(b, "from_vector_inplace_same_map")
        self._op_compose(op)

    def _op_copy(self, op):
        if not self.pool:
            return
        a = self._pick(op, "i")
        try:
            c = a.obj.copy()
        except Exception as ex:
            self.ctx.fail("law", "copy_raised_" + type(a.obj).__name__, repr(ex))
            return
        e = Entry(c, H=None if a.H is None else a.H.copy(), prims=None if a.prims is None else list(a.prims))
        e.born = a.born
        self._put(e, op["dst"])

    def _op_pinv(self, op):
        if not self.pool:
            return
        a = self._pick(op, "i")
        if a.H is None:
            return
        Hi = np.linalg.inv(a.H)
        if not self._ok_numerics(Hi):
            return
        try:
            p = a.obj.pseudoinverse()
        except Exception as ex:
            return  # C04's business
        e = Entry(p, H=Hi)
        # only joins the pool if it really is the inverse (C04 judges the rest)
        got = np.asarray(p.apply(self.X.copy()))
        exp = happly(Hi, self.X)
        if np.abs(got - exp).max() <= TOL * max(1.0, np.abs(exp).max()) and class_predicate(p, np.asarray(p.h_matrix, float), self.d) is None:
            self._put(e, op["dst"])

    def _op_decompose(self, op):
        ctx = self.ctx
        if not self.pool:
            return
        a = self._pick(op, "i")
        if a.H is None or not isinstance(a.obj, Affine):
            return
        if class_predicate(a.obj, np.asarray(a.obj.h_matrix, float), self.d) is not None:
            return
        try:
            parts = a.obj.decompose()
            t = parts[0]
            for p in parts[1:]:
                t = t.compose_before(p)
        except Exception as ex:
            ctx.fail("decomposition", "decompose_recompose_raised_" + type(a.obj).__name__, repr(ex))
            return
        ctx.probe("decompose_recompose")
        got = np.asarray(t.apply(self.X.copy()))
        exp = happly(a.H, self.X)
        err = float(np.abs(got - exp).max() / max(1.0, np.abs(exp).max()))
        ctx.err("decompose", err)
        ctx.require(err <= TOL, "decomposition", "recomposition_differs_" + type(a.obj).__name__,
                    lambda: "decompose() of %s recomposes to a different map (err %.3g)" % (type(a.obj).__name__, err))


MACHINE = Compose
