"""C10: PCA identities survive active-component changes and trims.

Histories of n_active_components changes (integer and variance-fraction form, in
and out of range), trims, copies and queries on long-lived PCA models; after every
step every model is checked against the harness' own SVD spectrum plus a
two-integer bookkeeping model (kept k, active a) and against a freshly built model
with that many components.
"""
import warnings

import numpy as np

from ..core import Machine, rs

from menpo.image import Image, MaskedImage
from menpo.model import PCAModel, PCAVectorModel
from menpo.shape import PointCloud

POOL = 3
RT = 1e-8


def make_data(seed, n, d, centred):
    """n x d matrix with a well separated spectrum (singular values ratio 0.72)."""
    g = rs(seed)
    r = min(n - 1 if centred else n, d)
    A = g.randn(n, r)
    if centred:
        A -= A.mean(0)
    U = np.linalg.qr(A)[0]
    if centred:
        U -= U.mean(0)  # columns stay orthogonal to the ones vector up to rounding
        U = np.linalg.qr(U)[0]
    V = np.linalg.qr(g.randn(d, r))[0]
    s = 30.0 * 0.72 ** np.arange(r) * (1.0 + 0.05 * g.rand(r))
    s = np.sort(s)[::-1]
    X = (U * s) @ V.T
    if centred:
        X = X + g.uniform(1.0, 5.0, size=d) * np.where(g.rand(d) < 0.5, 1, -1)
    return X


class Wrap(object):
    """Uniform vector-level view of PCAVectorModel and object-backed PCAModel,
    through their public methods only."""

    def __init__(self, kind, template=None):
        self.kind, self.template = kind, template

    def samples(self, X):
        if self.kind == "vector":
            if getattr(self, "first_int", False):
                # a list of samples, the first of which is held in single precision (its values are exactly
                # representable there); the others are doubles
                rows = [x.copy() for x in X]
                rows[0] = rows[0].astype(np.float32)
                return rows
            return X.astype(np.int64) if getattr(self, "int_data", False) else X.copy()
        return [self.template.from_vector(x.copy()) for x in X]

    def build(self, X, centre, inplace, max_n=None):
        if self.kind == "vector":
            return PCAVectorModel(self.samples(X), centre=centre, inplace=inplace, max_n_components=max_n)
        return PCAModel(self.samples(X), centre=centre, inplace=inplace, max_n_components=max_n)

    def vec(self, o):
        return np.asarray(o if self.kind == "vector" else o.as_vector(), dtype=float).ravel()

    def obj(self, v):
        return v.copy() if self.kind == "vector" else self.template.from_vector(v.copy())


class Entry(object):
    pass


class PCABook(Machine):
    PROPERTY = "C10"
    NAME = "pca_bookkeeping"
    BUDGET = {"quick": {"runs": 18000, "wall": 75, "digests": 24, "block": 50},
              "thorough": {"runs": 250000, "wall": 840, "digests": 128, "block": 200}}
    LEVEL = {"quick": "exploration", "thorough": "exploration"}
    RULE = ("seeded histories on PCA models (vector-backed, PointCloud-, Image- and MaskedImage-backed; n on both "
            "sides of d; centred/uncentred; inplace on/off; optional max_n_components): integer and "
            "variance-fraction settings of n_active_components in and out of range, trim_components(n)/(), "
            "copies that diverge, queries; non-trivial = at least one clause evaluated; distinct = distinct "
            "(configuration kind, op-kind sequence)")
    STATE_MEASURE = "(d<n?, centred?, backing kind, kept k, active a, size of the discarded pool) per model"
    REAL = ["menpo.math.decomposition.pca, PCAVectorModel, PCAModel, MeanLinearVectorModel, VectorizableBackedModel"]
    STUB = []
    ASSUMPTIONS = ["spectra are well separated (ratio 0.72 between consecutive singular values)",
                   "data are passed as copies (inplace=True documents that it edits the caller's matrix)",
                   "out-of-range settings may raise or clamp; the model then follows the SUT if it reports a valid count",
                   "variance fractions are chosen as midpoints between cumulative ratios (no ties)"]
    REQUIRED_PROBES = ("branch_d_lt_n", "branch_d_ge_n", "float_selects_1", "float_selects_middle",
                       "float_selects_all", "trim_to_1", "trim_after_trim", "noop_setter", "copy_diverged",
                       "out_of_range_int", "out_of_range_float", "all_kept_reconstruct_exact",
                       "object_backed", "uncentred", "max_n_components_at_build", "tiny_data_scale", "huge_data_scale", "integer_dtype_data", "mean_much_larger_than_spread",
                       "earlier_results_still_valid", "fraction_equal_to_an_own_cumulative_ratio", "integer_typed_instance_queried")

    @classmethod
    def swarm(cls, rng, tier):
        kind = rng.choice(["vector", "vector", "pointcloud", "image", "masked"])
        centred = rng.random() < 0.7
        if kind == "vector":
            d = rng.randint(2, 10)
        elif kind == "pointcloud":
            d = 2 * rng.randint(2, 5)
        elif kind == "image":
            d = None
        else:
            d = None
        n = rng.randint(3, 14)
        if kind == "vector" and rng.random() < 0.05:
            # very wide data (a few samples of a thousand features and more): the blocked in-place products of the
            # n <= d path run over their block boundaries
            d = rng.choice([1000, 2000, 999, 1001, 3000])
            n = rng.randint(3, 6)
        return {"kind": kind, "centred": centred, "n": n, "d": d, "seed": rng.getrandbits(32),
                "inplace": rng.random() < 0.5, "max_n": rng.choice([0, 0, 0, 1, 2, 3, 5]),
                "scale_exp": rng.choice([-6, -3, 0, 0, 0, 3, 6]), "int_data": int(rng.random() < 0.15), "offset_exp": rng.choice([0, 0, 0, 3, 5]),
                "steps": rng.randint(3, 16 if tier == "quick" else 40)}

    @classmethod
    def draw(cls, rng, cfg):
        r = rng.random()
        if r < 0.28:
            return {"op": "set_int", "m": rng.randrange(3), "v": rng.randrange(-1, 14)}
        if r < 0.52:
            return {"op": "set_float", "m": rng.randrange(3), "j": rng.randrange(0, 14), "bad": rng.choice([0, 0, 0, 0, 1, 2, 3, 4])}
        if r < 0.72:
            return {"op": "trim", "m": rng.randrange(3), "v": rng.randrange(0, 14), "none": rng.randrange(3)}
        if r < 0.82:
            return {"op": "copy", "m": rng.randrange(3), "dst": rng.randrange(3)}
        return {"op": "query", "m": rng.randrange(3), "seed": rng.getrandbits(32)}

    # ------------------------------------------------------------------
    def setup(self):
        warnings.simplefilter("ignore")
        cfg = self.cfg
        g = rs(cfg["seed"] ^ 0x42)
        kind = cfg["kind"]
        if kind == "vector":
            self.w = Wrap("vector")
            d = cfg["d"]
        elif kind == "pointcloud":
            d = cfg["d"]
            self.w = Wrap("obj", PointCloud(g.rand(d // 2, 2)))
        elif kind == "image":
            tmpl = Image(g.rand(int(g.randint(1, 3)), int(g.randint(2, 4)), int(g.randint(2, 4))))
            self.w = Wrap("obj", tmpl)
            d = tmpl.n_parameters
        else:
            shape = (int(g.randint(2, 4)), int(g.randint(2, 5)))
            mask = g.rand(*shape) < 0.7
            mask.flat[0] = True
            mask.flat[-1] = True
            tmpl = MaskedImage(g.rand(int(g.randint(1, 3)), *shape), mask=mask)
            self.w = Wrap("obj", tmpl)
            d = tmpl.n_parameters
        self.d = d
        n = cfg["n"]
        self.centred = cfg["centred"]
        self.X = make_data(cfg["seed"], n, d, self.centred) * 10.0 ** cfg.get("scale_exp", 0)
        self.int_data = bool(cfg.get("int_data")) and kind == "vector" and cfg.get("scale_exp", 0) >= 0
        if self.int_data:
            # integer-valued samples (e.g. 8-bit pixel data) handed over as an integer-dtype matrix
            self.X = np.round(self.X * (8.0 if cfg.get("scale_exp", 0) == 0 else 1.0))
            self.ctx.probe("integer_dtype_data")
        off = cfg.get("offset_exp", 0)
        if off and self.centred and not self.int_data:
            # observations far from the origin compared with their spread (map coordinates, timestamps, ...)
            self.X = self.X + (10.0 ** off) * float(np.abs(self.X).std()) * np.where(np.arange(d) % 2, 1.0, -0.7)
            self.ctx.probe("mean_much_larger_than_spread")
        self.offset = off if (off and self.centred and not self.int_data) else 0
        if kind == "vector" and not self.int_data and not self.offset and cfg["seed"] % 8 == 5:
            self.X[0] = self.X[0].astype(np.float32).astype(float)
            self.w.first_int = True
            self.ctx.probe("list_of_samples_first_one_single_precision")
        self.scale = float(np.abs(self.X - (self.X.mean(0) if self.centred else 0)).max())
        if cfg.get("scale_exp", 0) < 0:
            ctx0 = self.ctx
            ctx0.probe("tiny_data_scale")
        elif cfg.get("scale_exp", 0) > 0:
            self.ctx.probe("huge_data_scale")
        Xc = self.X - self.X.mean(0) if self.centred else self.X
        self.Xc = Xc
        s = np.linalg.svd(Xc, compute_uv=False)
        lam = s ** 2 / (n - 1)
        self.lam = lam[lam > 1e-10 * lam[0]]
        self.r = len(self.lam)
        self.total = float(self.lam.sum())
        self.cum = np.cumsum(self.lam) / self.total
        ctx = self.ctx
        ctx.probe("branch_d_lt_n" if d < n else "branch_d_ge_n")
        if kind != "vector":
            ctx.probe("object_backed")
        if not self.centred:
            ctx.probe("uncentred")
        max_n = cfg["max_n"] or None
        self.w.int_data = self.int_data
        try:
            m = self.w.build(self.X, self.centred, cfg["inplace"] and not self.int_data, max_n)
        except Exception as ex:
            ctx.fail("build", "constructor_raised", repr(ex))
            self.pool = []
            return
        e = Entry()
        e.m = m
        e.k = self.r if max_n is None else min(max_n, self.r)
        e.a = e.k
        e.trims = 0 if e.k == self.r else 1
        if max_n is not None and max_n < self.r:
            ctx.probe("max_n_components_at_build")
        self.pool = [e]
        self._check(e)

    def step(self, op):
        if not self.pool:
            return
        e = self.pool[op["m"] % len(self.pool)]
        getattr(self, "_op_" + op["op"])(op, e)
        for x in self.pool:
            self._check(x)
            self.ctx.state(self.d < self.cfg["n"], self.centred, self.cfg["kind"], x.k, x.a, self.r - x.k)

    def _adopt(self, e, what):
        """After an out-of-range request the SUT may have clamped: follow it if it reports
        a consistent pair of counts."""
        try:
            k2, a2 = int(e.m.n_components), int(e.m.n_active_components)
        except Exception as ex:
            self.ctx.fail("counts", "count_query_raised_after_" + what, repr(ex))
            return
        ok = 1 <= a2 <= k2 <= e.k
        self.ctx.require(ok, "counts", "invalid_counts_after_" + what,
                         lambda: "after %s: n_components=%r n_active=%r (was k=%d a=%d)" % (what, k2, a2, e.k, e.a))
        if ok:
            if k2 < e.k:
                e.trims += 1
            e.k, e.a = k2, a2

    def _op_set_int(self, op, e):
        ctx = self.ctx
        v = op["v"]
        try:
            e.m.n_active_components = v
            raised = False
        except ValueError:
            raised = True
        except Exception as ex:
            ctx.fail("counts", "setter_raised_unexpected", repr(ex))
            return
        if 1 <= v <= e.k:
            ctx.require(not raised, "counts", "valid_int_rejected", lambda: "n_active_components=%d rejected (k=%d)" % (v, e.k))
            if v == e.a:
                ctx.probe("noop_setter")
            e.a = v
        else:
            ctx.probe("out_of_range_int")
            if not raised:
                self._adopt(e, "out_of_range_int")

    def _op_set_float(self, op, e):
        ctx = self.ctx
        kept_ratio = float(self.cum[e.k - 1])
        bad = op["bad"]
        if bad == 1:
            f = 0.0
        elif bad == 2:
            f = -0.25
        elif bad == 3:
            f = min(1.5, kept_ratio + 0.5 * (1.0 - kept_ratio) + 1e-3)
            if e.k == self.r:
                f = 1.2
        elif bad == 4:
            # "keep what the first j+1 components explain": the fraction is one of the model's OWN cumulative ratios,
            # read back through the public accessor, so the comparison inside the setter is an exact tie
            try:
                cr = np.asarray(e.m.eigenvalues_cumulative_ratio(), dtype=float)
            except Exception as ex:
                ctx.fail("counts", "query_raised", repr(ex))
                return
            if cr.size < 1:
                return
            j = op["j"] % cr.size
            if j + 1 >= e.k:
                # (the ratio of ALL kept components is compared with a separately computed total - sum() against
                # cumsum()[-1], equal only up to rounding: that boundary is a numerical cliff, not a tie)
                return
            f = float(cr[j])
            bad = 0
            if op["j"] % 2 == 0 and j + 1 < cr.size and float(cr[j + 1]) > f * (1 + 1e-3):
                # a few parts in a million MORE than the first j+1 components explain: one more component is needed
                f = f * (1 + 4e-6)
                j = j + 1
                ctx.probe("fraction_just_above_an_own_cumulative_ratio")
            else:
                ctx.probe("fraction_equal_to_an_own_cumulative_ratio")
        else:
            j = op["j"] % e.k          # want exactly j+1 components
            lo = float(self.cum[j - 1]) if j > 0 else 0.0
            f = 0.5 * (lo + float(self.cum[j]))
        try:
            e.m.n_active_components = float(f)
            raised = False
        except ValueError:
            raised = True
        except Exception as ex:
            ctx.fail("counts", "setter_raised_unexpected", repr(ex))
            return
        if bad == 0:
            ctx.require(not raised, "counts", "valid_fraction_rejected", lambda: "fraction %r rejected (kept ratio %r)" % (f, kept_ratio))
            if not raised:
                want = j + 1
                ctx.probe("float_selects_1" if want == 1 else ("float_selects_all" if want == e.k else "float_selects_middle"))
                got = int(e.m.n_active_components)
                ctx.require(got == want, "fraction_form", "wrong_component_count",
                            lambda: "variance fraction %.6f needs %d components (cumulative ratios %r) but %d were activated" % (f, want, np.round(self.cum[:e.k], 6).tolist(), got))
                if 1 <= got <= e.k:
                    e.a = got
        else:
            ctx.probe("out_of_range_float")
            if not raised:
                self._adopt(e, "out_of_range_float")

    def _op_trim(self, op, e):
        ctx = self.ctx
        n = None if op["none"] == 0 else op["v"]
        try:
            e.m.trim_components(n)
            raised = False
        except ValueError:
            raised = True
        except Exception as ex:
            ctx.fail("counts", "trim_raised_unexpected", repr(ex))
            return
        target = e.a if n is None else n
        if 1 <= target <= e.k:
            ctx.require(not raised, "counts", "valid_trim_rejected", lambda: "trim_components(%r) rejected (k=%d a=%d)" % (n, e.k, e.a))
            if raised:
                return
            if target < e.k:
                if e.trims:
                    ctx.probe("trim_after_trim")
                e.trims += 1
                if target == 1:
                    ctx.probe("trim_to_1")
            e.k = e.a = target
        elif not raised:
            self._adopt(e, "out_of_range_trim")

    def _op_copy(self, op, e):
        try:
            c = e.m.copy()
        except Exception as ex:
            self.ctx.fail("copy", "copy_raised", repr(ex))
            return
        n = Entry()
        n.m, n.k, n.a, n.trims = c, e.k, e.a, e.trims
        n.is_copy = True
        if len(self.pool) < POOL:
            self.pool.append(n)
        else:
            self.pool[op["dst"] % POOL] = n

    def _op_query(self, op, e):
        # identities on random vectors are part of the per-step check; this op only adds queries between
        # bookkeeping changes (projection caches, if any, get warmed with the current counts)
        g = rs(op["seed"])
        x = self.X[int(g.randint(self.X.shape[0]))]
        try:
            e.m.project(self.w.obj(x))
            e.m.reconstruct(self.w.obj(x))
        except Exception as ex:
            self.ctx.fail("identities", "query_raised", repr(ex))
            return
        if self.cfg["kind"] == "pointcloud" and self.scale > 0:
            # the same shape typed with whole numbers (integer dtype) and with floats: the model's answers are vectors
            # of reals either way
            vals = np.round(x / self.scale * 50.0).reshape(-1, 2)
            if float(np.abs(vals).max()) < 1e12:
                try:
                    fi, ff = PointCloud(vals.astype(np.int64)), PointCloud(vals.astype(float))
                    for name in ("reconstruct", "project_out"):
                        ri = np.asarray(getattr(e.m, name)(fi).as_vector(), dtype=float)
                        rf = np.asarray(getattr(e.m, name)(ff).as_vector(), dtype=float)
                        err = float(np.abs(ri - rf).max()) if ri.shape == rf.shape else float("inf")
                        self.ctx.require(err <= 1e-9 * (1.0 + float(np.abs(rf).max())), "identities", "integer_typed_instance_answered_differently_" + name,
                                         lambda: "%s of the same shape with integer and with float coordinates differ by %.3g" % (name, err))
                    self.ctx.probe("integer_typed_instance_queried")
                except Exception as ex:
                    self.ctx.fail("identities", "query_raised", repr(ex))

    # ------------------------------------------------------------------
    def _check(self, e):
        ctx = self.ctx
        m, w = e.m, self.w
        lam, d, k, a = self.lam, self.d, e.k, e.a
        if len({(x.k, x.a) for x in self.pool}) > 1 and getattr(e, "is_copy", False):
            ctx.probe("copy_diverged")
        try:
            C = np.asarray(m.components, dtype=float)
            ev = np.asarray(m.eigenvalues, dtype=float)
            ncomp, nact = int(m.n_components), int(m.n_active_components)
        except Exception as ex:
            ctx.fail("counts", "accessor_raised", repr(ex))
            return
        ctx.require(ncomp == k and nact == a and C.shape == (a, d) and ev.shape == (a,), "counts", "inconsistent",
                    lambda: "expected k=%d a=%d; n_components=%d n_active=%d components%r eigenvalues%r" % (k, a, ncomp, nact, C.shape, ev.shape))
        if C.shape != (a, d) or ev.shape != (a,):
            return
        err = float(np.abs(C @ C.T - np.eye(a)).max())
        ctx.err("orthonormal", err)
        ctx.require(err < 1e-8, "identities", "components_not_orthonormal", lambda: "err %.3g" % err)
        ctx.require(bool(np.all(ev > 0)) and bool(np.all(np.diff(ev) <= 0)), "identities", "eigenvalues_not_positive_descending",
                    lambda: repr(ev.tolist()))
        err = float(np.abs(ev - lam[:a]).max() / lam[0])
        ctx.err("eigenvalues_vs_svd", err)
        ctx.require(err < RT, "identities", "eigenvalues_differ_from_spectrum",
                    lambda: "eigenvalues %r expected %r" % (ev.tolist(), lam[:a].tolist()))
        # sample variance along each component
        sv = np.var(self.Xc @ C.T, axis=0, ddof=1) if self.centred else ((self.Xc @ C.T) ** 2).sum(0) / (self.cfg["n"] - 1)
        err = float(np.abs(sv - ev).max() / lam[0])
        ctx.err("sample_variance", err)
        ctx.require(err < RT, "identities", "eigenvalue_is_not_sample_variance", lambda: "%r vs %r" % (sv.tolist(), ev.tolist()))
        # variances
        ov = float(m.original_variance())
        ctx.require(abs(ov - self.total) <= RT * self.total, "variance_bookkeeping", "original_variance_changed",
                    lambda: "original_variance %r expected %r (k=%d a=%d)" % (ov, self.total, k, a))
        v = float(m.variance())
        ctx.require(abs(v - lam[:a].sum()) <= RT * self.total, "variance_bookkeeping", "variance_wrong",
                    lambda: "variance %r expected %r" % (v, float(lam[:a].sum())))
        nv = float(m.noise_variance())
        exp_nv = float(lam[a:].mean()) if a < self.r else 0.0
        ctx.require(abs(nv - exp_nv) <= RT * self.total, "variance_bookkeeping", "noise_variance_wrong",
                    lambda: "noise_variance %r expected mean of the %d dropped eigenvalues %r (k=%d a=%d r=%d)" % (nv, self.r - a, exp_nv, k, a, self.r))
        ctx.require(abs(v + nv * (self.r - a) - self.total) <= 10 * RT * self.total, "variance_bookkeeping", "kept_plus_discarded",
                    lambda: "kept %r + discarded %r != original %r" % (v, nv * (self.r - a), self.total))
        vr = float(m.variance_ratio())
        ctx.require(abs(vr - lam[:a].sum() / self.total) <= RT, "variance_bookkeeping", "variance_ratio_wrong", lambda: repr(vr))
        ecr = np.asarray(m.eigenvalues_cumulative_ratio(), dtype=float)
        ctx.require(ecr.shape == (a,) and float(np.abs(ecr - self.cum[:a]).max()) <= RT, "variance_bookkeeping", "cumulative_ratio_wrong",
                    lambda: repr(ecr.tolist()))
        # mean
        mu = w.vec(m.mean())
        exp_mu = self.X.mean(0) if self.centred else np.zeros(d)
        err = float(np.abs(mu - exp_mu).max())
        ctx.require(err <= 1e-9 * self.scale * (10.0 ** self.offset), "identities", "mean_wrong", lambda: "err %.3g" % err)
        # fresh model with that many components
        fresh = w.build(self.X, self.centred, False, k)
        fresh.n_active_components = a
        Cf = np.asarray(fresh.components, dtype=float)
        ok = Cf.shape == C.shape
        if ok:
            sign = np.sign(np.sum(Cf * C, axis=1))
            sign[sign == 0] = 1
            err = float(np.abs(Cf * sign[:, None] - C).max())
            ctx.err("components_vs_fresh", err)
            ok = err < 1e-7
        ctx.require(ok, "same_as_fresh", "components", lambda: "components differ from a model built with max_n_components=%d, n_active=%d" % (k, a))
        for name in ("eigenvalues", "noise_variance", "original_variance", "variance", "n_components", "n_active_components"):
            va, vb = getattr(m, name), getattr(fresh, name)
            va = va() if callable(va) else va
            vb = vb() if callable(vb) else vb
            ok = np.shape(va) == np.shape(vb) and float(np.abs(np.asarray(va, float) - np.asarray(vb, float)).max(initial=0.0)) <= RT * self.total
            ctx.require(ok, "same_as_fresh", name, lambda: "%s: %r vs fresh %r (k=%d a=%d)" % (name, va, vb, k, a))
        # projections on random vectors
        g = rs(self.cfg["seed"] ^ (k * 131 + a * 17 + self.ctx.steps))
        x = self.X[int(g.randint(self.X.shape[0]))] + g.randn(d) * self.scale * 0.05
        xo = w.obj(x)
        wts = g.randn(a) * np.sqrt(ev)
        w_in = wts.copy()
        inst = m.instance(w_in)
        ctx.require(np.array_equal(w_in, wts), "identities", "instance_modified_the_weights_it_was_given")
        # the same instance through normalised weights (weights in units of standard deviations)
        w_n = wts / np.sqrt(ev)
        w_n_in = w_n.copy()
        try:
            inst_n = m.instance(w_n_in, normalized_weights=True)
        except Exception as ex:
            ctx.fail("identities", "instance_normalized_raised", repr(ex))
            return
        ctx.require(np.array_equal(w_n_in, w_n), "identities", "instance_modified_the_weights_it_was_given",
                    lambda: "instance(w, normalized_weights=True) rescaled the caller's weight array in place")
        back_n = np.asarray(m.project(inst_n), dtype=float)
        ctx.require(back_n.shape == wts.shape and float(np.abs(back_n - wts).max()) <= 1e-8 * (np.sqrt(lam[0]) + np.abs(wts).max()),
                    "identities", "project_of_normalized_instance_is_not_weights")
        back = np.asarray(m.project(inst), dtype=float)
        if back.shape != wts.shape:
            ctx.fail("identities", "project_returns_wrong_number_of_weights",
                     "project() returned %d weights for a model with %d active components" % (back.size, a))
            return
        err = float(np.abs(back - wts).max() / (np.sqrt(lam[0]) + np.abs(wts).max()))
        ctx.err("project_instance", err)
        ctx.require(err < 1e-8, "identities", "project_of_instance_is_not_weights", lambda: "err %.3g" % err)
        try:
            rec = m.reconstruct(xo)
            rec2 = m.reconstruct(rec)
            po_obj = m.project_out(xo)
        except Exception as ex:
            ctx.fail("identities", "reconstruct_or_project_out_raised", "k=%d a=%d: %r" % (k, a, ex))
            return
        rv, rv2 = w.vec(rec), w.vec(rec2)
        sc = self.scale
        ctx.require(float(np.abs(rv2 - rv).max()) < 1e-8 * sc, "identities", "reconstruct_not_idempotent")
        resid = x - rv
        ctx.require(float(np.abs(C @ resid).max()) < 1e-8 * sc, "identities", "reconstruction_residual_not_orthogonal",
                    lambda: "C @ (x - reconstruct(x)) = %r" % (C @ resid).tolist())
        inspan = (rv - mu) - C.T @ (C @ (rv - mu))
        ctx.require(float(np.abs(inspan).max()) < 1e-8 * sc, "identities", "reconstruction_not_in_model_span")
        po = w.vec(po_obj)
        ctx.require(float(np.abs(C @ po).max()) < 1e-8 * sc, "identities", "project_out_not_orthogonal")
        ctx.require(float(np.abs(po - resid).max()) < 1e-8 * sc, "identities", "project_out_is_not_residual")
        ctx.require(np.array_equal(w.vec(xo), x), "identities", "query_modified_input")
        held = getattr(e, "held", None)
        if held is not None:
            for name, obj, snap in held:
                ctx.require(np.array_equal(w.vec(obj), snap), "identities", "earlier_result_overwritten_by_later_call_" + name,
                            lambda: "the %s returned by an earlier call changed after later calls on the same model" % name)
            ctx.probe("earlier_results_still_valid")
        e.held = [("project_out", po_obj, po.copy()), ("reconstruct", rec, rv.copy()), ("instance", inst, w.vec(inst).copy())]
        if a == self.r and k == self.r:
            ctx.probe("all_kept_reconstruct_exact")
            R = np.vstack([w.vec(m.reconstruct(w.obj(s))) for s in self.X])
            err = float(np.abs(R - self.X).max() / self.scale)
            ctx.err("training_reconstruction", err)
            ctx.require(err < 1e-8, "identities", "training_sample_not_reconstructed", lambda: "err %.3g" % err)
        ctx.out("chk", k, a)


MACHINE = PCABook
