"""Generic object-graph walker: deep digest, reachable buffers, memory sharing and
"scribble" (write through every reachable buffer).  Walks vars(obj) generically and
never names a private attribute of menpo, so renames inside menpo do not disconnect it.
"""
import functools
import hashlib
from collections import OrderedDict
from pathlib import PurePath

import numpy as np
import scipy.sparse as sp


def _is_leaf(o):
    return o is None or isinstance(o, (bool, int, float, complex, str, bytes, np.generic, PurePath, type))


def _is_empty(v):
    if v is None:
        return True
    if isinstance(v, (np.ndarray, str, bytes)) or sp.issparse(v):
        return False
    try:
        return len(v) == 0
    except Exception:
        return False


def walk(obj, path="", seen=None, skip=()):
    """Yield (path, kind, value) for every reachable node; kind in
    {'array','leaf','enter','callable'}."""
    if seen is None:
        seen = set()
    if _is_leaf(obj):
        yield path, "leaf", obj
        return
    if isinstance(obj, np.ndarray):
        # arrays are always reported (aliasing inside one object graph is not part of its state)
        yield path, "array", obj
        return
    if id(obj) in seen:
        yield path, "leaf", "<seen>"
        return
    seen.add(id(obj))
    if sp.issparse(obj):
        yield path, "enter", type(obj).__name__ + repr(obj.shape)
        for name in ("data", "indices", "indptr", "row", "col"):
            if hasattr(obj, name):
                a = getattr(obj, name)
                if isinstance(a, np.ndarray):
                    yield path + "." + name, "array", a
        return
    if isinstance(obj, (dict, OrderedDict)):
        yield path, "enter", type(obj).__name__ + "(%d)" % len(obj)
        for k in obj:  # insertion order is part of the state
            for x in walk(obj[k], "%s[%r]" % (path, k), seen, skip):
                yield x
        return
    if isinstance(obj, (list, tuple)):
        yield path, "enter", type(obj).__name__ + "(%d)" % len(obj)
        for i, v in enumerate(obj):
            for x in walk(v, "%s[%d]" % (path, i), seen, skip):
                yield x
        return
    if isinstance(obj, (set, frozenset)):
        yield path, "leaf", sorted(repr(v) for v in obj)
        return
    if isinstance(obj, functools.partial):
        yield path, "enter", "partial"
        for x in walk(obj.func, path + ".func", seen, skip):
            yield x
        for x in walk(obj.args, path + ".args", seen, skip):
            yield x
        for x in walk(obj.keywords, path + ".keywords", seen, skip):
            yield x
        return
    if callable(obj) and not hasattr(obj, "__dict__") or isinstance(obj, type(walk)) or isinstance(obj, type(len)):
        yield path, "callable", getattr(obj, "__qualname__", getattr(obj, "__name__", type(obj).__name__))
        return
    d = getattr(obj, "__dict__", None)
    if d is None:
        slots = getattr(type(obj), "__slots__", None)
        if slots:
            d = {s: getattr(obj, s) for s in slots if hasattr(obj, s)}
    if d is None:
        yield path, "leaf", repr(obj)
        return
    yield path, "enter", type(obj).__name__
    for k in sorted(d):
        if k in skip:
            continue
        v = d[k]
        if "__empty__" in skip and _is_empty(v):
            continue   # None == empty manager == empty container (lazily created attributes)
        for x in walk(v, path + "." + k, seen, skip):
            yield x


def digest(obj, skip=()):
    m = hashlib.sha256()
    for path, kind, v in walk(obj, skip=skip):
        m.update(path.encode())
        m.update(kind.encode())
        if kind == "array":
            a = np.ascontiguousarray(v)
            m.update(str(a.dtype).encode())
            m.update(repr(a.shape).encode())
            if a.dtype == object:
                m.update(repr(a.tolist()).encode())
            else:
                m.update(a.tobytes())
        elif kind == "leaf":
            if isinstance(v, (np.floating, float)):
                m.update(repr(float(v)).encode())
            elif isinstance(v, (np.integer,)):
                m.update(repr(int(v)).encode())
            elif isinstance(v, np.bool_):
                m.update(repr(bool(v)).encode())
            else:
                m.update(repr(v).encode())
        else:
            m.update(repr(v).encode())
        m.update(b"\0")
    return m.hexdigest()[:24]


def describe(obj, skip=(), limit=60):
    """Human-readable flattened state (for violation details)."""
    out = []
    for path, kind, v in walk(obj, skip=skip):
        if kind == "array":
            out.append("%s=%s%s %s" % (path, v.dtype, v.shape, np.array2string(np.asarray(v).ravel()[:6], precision=4)))
        elif kind == "leaf":
            out.append("%s=%r" % (path, v))
        if len(out) >= limit:
            break
    return out


def diff(a, b, skip=()):
    """First differing node between two object graphs (for violation details)."""
    wa = list(walk(a, skip=skip))
    wb = list(walk(b, skip=skip))
    for (pa, ka, va), (pb, kb, vb) in zip(wa, wb):
        if pa != pb or ka != kb:
            return "structure differs at %s/%s" % (pa, pb)
        if ka == "array":
            if va.shape != vb.shape or va.dtype != vb.dtype or not np.array_equal(va, vb, equal_nan=va.dtype.kind == "f"):
                return "array %s differs: %s vs %s" % (pa, np.asarray(va).ravel()[:5], np.asarray(vb).ravel()[:5])
        elif ka == "leaf":
            if repr(va) != repr(vb) and not (isinstance(va, float) and isinstance(vb, float) and va != va and vb != vb):
                return "%s differs: %r vs %r" % (pa, va, vb)
        elif va != vb:
            return "%s differs: %r vs %r" % (pa, va, vb)
    if len(wa) != len(wb):
        return "different number of nodes: %d vs %d" % (len(wa), len(wb))
    return None


def arrays(obj, skip=()):
    return [(p, v) for p, k, v in walk(obj, skip=skip) if k == "array"]


def shared_buffers(a, b, allowed=(), only=None):
    """Pairs of reachable arrays of a and b that share memory, except those that
    also share memory with an array reachable from any object in `allowed`.  `only`
    restricts both sides to a set of paths (e.g. the arrays that existed when the
    object was constructed, which excludes memo buffers created by later calls)."""
    aa = arrays(a)
    bb = arrays(b)
    if only is not None:
        aa = [(p, v) for p, v in aa if p in only]
        bb = [(p, v) for p, v in bb if p in only]
    allow = []
    for o in allowed:
        allow.extend(v for _, v in arrays(o))
    out = []
    for pa, va in aa:
        if va.size == 0:
            continue
        for pb, vb in bb:
            if vb.size == 0:
                continue
            if np.may_share_memory(va, vb) and np.shares_memory(va, vb):
                if any(np.may_share_memory(va, w) and np.shares_memory(va, w) for w in allow):
                    continue
                out.append((pa, pb))
    return out


def scribble(obj, allowed=(), which=None, only=None):
    """Write a sentinel through every reachable writable buffer (optionally only the
    `which`-th one).  Returns the paths written."""
    allow = []
    for o in allowed:
        allow.extend(v for _, v in arrays(o))
    written = []
    n = 0
    for p, v in arrays(obj):
        if v.size == 0:
            continue
        if only is not None and p not in only:
            continue
        if any(np.may_share_memory(v, w) and np.shares_memory(v, w) for w in allow):
            continue
        if which is not None and n != which:
            n += 1
            continue
        n += 1
        try:
            if not v.flags.writeable:
                v.setflags(write=True)
        except ValueError:
            continue
        if v.dtype == np.bool_:
            np.logical_not(v, out=v)
        elif v.dtype.kind in "iu":
            v += 1
        elif v.dtype.kind in "fc":
            v += 1234.5
        else:
            continue
        written.append(p)
    return written
