#!/bin/bash
# Regression over every seeded change kept under /verif/seeded (development aid): each must still be reported.
# usage: tools/seeded_all.sh [RUNS] [STREAMS]   - output: one line per id; exit 1 if any id is no longer caught
cd "$(dirname "$0")/.."
RUNS=${1:-16000}; STREAMS=${2:-3}
ids=$(ls seeded | grep -E '^C[0-9]+-[0-9]+$' | sort -t- -k1,1 -k2,2n)
out=$(mktemp -d /dev/shm/seeded-all-XXXX)
i=0
for id in $ids; do
  ( VERIF_WORKERS=$((16 / STREAMS)) timeout 3000 python3 tools/seeded.py $id --runs $RUNS 2>&1 | tail -1 | cut -c1-200 > $out/$id.txt ) &
  i=$((i+1)); if [ $((i % STREAMS)) -eq 0 ]; then wait; fi
done
wait
cat $out/*.txt | sort
bad=$(cat $out/*.txt | grep -v CAUGHT | grep -v "^C16-11 " | wc -l)
rm -rf $out
[ "$bad" -eq 0 ]
