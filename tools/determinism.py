#!/usr/bin/env python3
"""Determinism proof on a larger sample (development aid): for each property, the outcome digests of the
first N runs of several VERIF_SEED values are computed in fresh interpreters under two PYTHONHASHSEED values
(except C15, where the hash seed is the property) and with two different shard counts, and compared.

usage: tools/determinism.py [N] [PROP ...]
"""
import json, os, subprocess, sys
HERE = os.path.dirname(os.path.dirname(os.path.abspath(__file__)))
sys.path.insert(0, HERE)
BLOCK = {"C03": 100, "C06": 50, "C08": 100, "C09": 100, "C10": 50, "C11": 50, "C15": 50, "C16": 50, "C19": 250, "C20": 500}


def digests(prop, seed, n, hashseed, shards):
    out = {}
    procs = []
    for sh in range(shards):
        env = dict(os.environ, PYTHONHASHSEED=str(hashseed), VERIF_SEED=str(seed), PYTHONPATH="/repo:" + HERE,
                   OPENBLAS_NUM_THREADS="1", OMP_NUM_THREADS="1", PYTHONDONTWRITEBYTECODE="1")
        procs.append(subprocess.Popen(["/venv/bin/python", os.path.join(HERE, "vsim", "cli.py"), prop, "--tier", "quick",
                                       "--digests", str(n), "--shard", "%d/%d" % (sh, shards), "--block", str(BLOCK[prop])],
                                      stdout=subprocess.PIPE, stderr=subprocess.DEVNULL, text=True, env=env))
    for p in procs:
        o, _ = p.communicate()
        line = [l for l in o.splitlines() if l.startswith("DIGESTS ")][-1]
        out.update({int(k): tuple(v) for k, v in json.loads(line[8:]).items()})
    return out


def main():
    args = sys.argv[1:]
    n = int(args[0]) if args and args[0].isdigit() else 400
    props = [a for a in args if not a.isdigit()] or sorted(BLOCK)
    bad = 0
    for prop in props:
        for seed in (0, 1, 7):
            a = digests(prop, seed, n, 0, 4)
            b = digests(prop, seed, n, 0 if prop == "C15" else 98765, 3)
            diff = [i for i in a if a[i] != b.get(i)]
            print("%s seed=%d runs=%d differing=%d" % (prop, seed, len(a), len(diff)), flush=True)
            bad += len(diff)
    return 1 if bad else 0


if __name__ == "__main__":
    sys.exit(main())
