#!/usr/bin/env python3
"""Sensitivity proof (development aid, not a registered check): each mutant is a
string replacement applied to a scratch copy of /repo/menpo under /dev/shm; the
property's quick check (reduced run count) must report a VIOLATION on it.

usage: tools/mutants.py [PROP ...]   (VERIF_RUNS overrides the run count)
"""
import os, shutil, subprocess, sys, json, tempfile

HERE = os.path.dirname(os.path.dirname(os.path.abspath(__file__)))
sys.path.insert(0, os.path.join(HERE, "tools"))
from mutant_table import MUTANTS  # noqa


def run_one(prop, name, edits, runs):
    root = tempfile.mkdtemp(prefix="vsim-mut-", dir="/dev/shm")
    try:
        shutil.copytree("/repo/menpo", os.path.join(root, "menpo"))
        for rel, old, new in edits:
            p = os.path.join(root, rel)
            s = open(p).read()
            if s.count(old) != 1:
                return "BROKEN-MUTANT (pattern occurs %d times in %s)" % (s.count(old), rel)
            open(p, "w").write(s.replace(old, new))
        env = dict(os.environ, VERIF_REPO=root, VERIF_OUT=os.path.join(root, "out"),
                   VERIF_NO_SELFTEST="1")
        if runs:
            env["VERIF_RUNS"] = str(runs)
        p = subprocess.run([os.path.join(HERE, "bin", "check"), prop, "--tier", "quick"],
                           capture_output=True, text=True, env=env, timeout=1800)
        sigs = [l.strip() for l in p.stdout.splitlines() if l.strip().startswith("signature=")]
        if p.returncode == 1 and "VIOLATION property=%s" % prop in p.stdout:
            return "caught  " + "; ".join(s.split(" ")[0] for s in sigs[:3])
        if p.returncode == 0:
            return "MISSED"
        return "HARNESS-ERROR rc=%d %s" % (p.returncode, (p.stdout + p.stderr)[-400:])
    finally:
        shutil.rmtree(root, ignore_errors=True)


def main():
    props = sys.argv[1:]
    runs = os.environ.get("VERIF_RUNS")
    missed = 0
    for prop, name, edits in MUTANTS:
        if props and prop not in props and name not in props:
            continue
        r = run_one(prop, name, edits, runs)
        print("%s %-40s %s" % (prop, name, r), flush=True)
        if not r.startswith("caught"):
            missed += 1
    return 1 if missed else 0


if __name__ == "__main__":
    sys.exit(main())
