#!/usr/bin/env python3
"""Take a sub-agent's seeded change into /verif/seeded/<id>/ (development aid).

usage: tools/ingest.py <worktree> <id> <round> "<change>" "<needs_to_manifest>"
Copies <worktree>/SEEDED/<id>/{patch.diff,demo.py,notes.md}, writes a first meta.json, then confirms the change with
tools/seeded.py <id> --suite (demo passes without / fails with the patch, menpo's suite unchanged) and records the
first-contact verdict of the property's quick check limited to 16000 histories.
"""
import json, os, shutil, subprocess, sys

HERE = os.path.dirname(os.path.dirname(os.path.abspath(__file__)))


def main():
    wt, sid, rnd, change, needs = sys.argv[1:6]
    src = os.path.join(wt, "SEEDED", sid)
    dst = os.path.join(HERE, "seeded", sid)
    os.makedirs(dst, exist_ok=True)
    for f in ("patch.diff", "demo.py", "notes.md"):
        if os.path.exists(os.path.join(src, f)):
            shutil.copy(os.path.join(src, f), os.path.join(dst, f))
    head = subprocess.run("git -C /repo rev-parse --short HEAD", shell=True, capture_output=True, text=True).stdout.strip()
    vhead = subprocess.run("git -C %s rev-parse --short HEAD" % HERE, shell=True, capture_output=True, text=True).stdout.strip()
    r = subprocess.run([sys.executable, os.path.join(HERE, "tools", "seeded.py"), sid, "--suite", "--runs", "16000"],
                       capture_output=True, text=True)
    out = [l for l in r.stdout.splitlines() if l.startswith(sid)]
    print("\n".join(out))
    ok_demo = any("unchanged exit=0" in l and "changed exit=0" not in l.split("unchanged exit=0")[1] for l in out)
    ok_suite = any("suite diff vs baseline failures: none" in l for l in out)
    verdict = [l for l in out if " CAUGHT" in l or " MISSED" in l or " HARNESS" in l]
    meta = {"id": sid, "property": sid.split("-")[0], "change": change, "needs_to_manifest": needs, "round": int(rnd),
            "source": "independent sub-agent given only the property text, the list of earlier changes to avoid, and a "
                      "scratch worktree of /repo (HEAD %s)" % head,
            "confirmed_by_me": ("patch applies to a clean export of /repo HEAD; demo.py exits 0 without and non-zero with the "
                                "patch; menpo's pytest suite gives the same failures as the unchanged tree "
                                "(tools/seeded.py <id> --suite)") if ok_demo and ok_suite else "NOT CONFIRMED: %s" % out,
            "history": "first contact (machinery as committed at %s): %s" % (vhead, verdict[0][len(sid) + 1:] if verdict else "?")}
    json.dump(meta, open(os.path.join(dst, "meta.json"), "w"), indent=1)
    print("%s demo_ok=%s suite_ok=%s" % (sid, ok_demo, ok_suite))


if __name__ == "__main__":
    main()
