#!/usr/bin/env python3
"""Run a property's quick check against a behaviour-preserving change kept under /verif/benign/<id>/
(patch.diff applied to a scratch copy of /repo under /dev/shm): the check must stay silent (exit 0).
usage: tools/benign.py <id> [--runs N]"""
import argparse, os, shutil, subprocess, sys, tempfile
HERE = os.path.dirname(os.path.dirname(os.path.abspath(__file__)))

def main():
    ap = argparse.ArgumentParser(); ap.add_argument("id"); ap.add_argument("--runs"); ap.add_argument("--props")
    a = ap.parse_args()
    d = os.path.join(HERE, "benign", a.id)
    props = a.props.split(",") if a.props else [a.id.split("-")[0]]
    root = tempfile.mkdtemp(prefix="vsim-benign-", dir="/dev/shm")
    try:
        subprocess.run("git -C /repo archive HEAD menpo | tar -x -C %s" % root, shell=True, check=True)
        p = subprocess.run("cd %s && patch -p1 --no-backup-if-mismatch < %s" % (root, os.path.join(d, "patch.diff")), shell=True, capture_output=True, text=True)
        if p.returncode != 0:
            print("%s PATCH-FAILED %s" % (a.id, (p.stdout + p.stderr)[-300:])); return 2
        chk = os.path.join(d, "check.py")
        if os.path.exists(chk):
            r = subprocess.run(["/venv/bin/python", chk], capture_output=True, text=True, cwd=root, env=dict(os.environ, PYTHONPATH=root), timeout=900)
            print("%s own check.py on changed copy: exit=%d" % (a.id, r.returncode))
        rc = 0
        for prop in props:
            env = dict(os.environ, VERIF_REPO=root, VERIF_OUT=os.path.join(root, "out"), VERIF_NO_SELFTEST="1")
            if a.runs:
                env["VERIF_RUNS"] = a.runs
            q = subprocess.run([os.path.join(HERE, "bin", "check"), prop, "--tier", "quick"], capture_output=True, text=True, env=env, timeout=3600)
            sigs = [l.strip()[:300] for l in q.stdout.splitlines() if l.strip().startswith("signature=")]
            print("%s %s %s %s" % (a.id, prop, "SILENT" if q.returncode == 0 else "ALARM rc=%d" % q.returncode, " | ".join(sigs[:3])))
            if q.returncode == 2:
                print((q.stdout + q.stderr)[-800:])
            rc |= q.returncode
        return rc
    finally:
        shutil.rmtree(root, ignore_errors=True)

if __name__ == "__main__":
    sys.exit(main())
