#!/usr/bin/env python3
"""Regenerates /verif/MANIFEST.json from the table below (kept valid at all times)."""
import json, os
HERE = os.path.dirname(os.path.dirname(os.path.abspath(__file__)))

TECH = "deterministic simulation with fault injection: seeded search over operation/fault histories against a reference model, ddmin-minimised replay files"

CLAIMED = {
 "C16": dict(section="5.8", level="exploration",
   text="A simulated directory (real tmpfs files; builtins.open/io.open behind a fault-injecting proxy; ffmpeg replaced by an in-process fake) with few colliding names incl. multi-dot names, a sub-directory and six spellings of every path (str/Path x relative/absolute/./-prefixed/..-containing). Seeded histories (<= 12 operations) of export_landmark_file (.ljson with every shape class, 2D/3D, NaN coordinates, unicode ordered labels, empty edge sets, managers and dicts; .pts), export_pickle (.pkl/.pkl.gz, protocols 2-5; shapes, images, transforms, chains, PCA/GMRF models, managers, containers, objects carrying a path), export_image (png/bmp/tif/tiff/ppm/pgm; 8-bit data as floats and as uint8, arbitrary floats, boolean), export_video, with overwrite on/off, later imports, import->export->re-import of images, foreign files appearing and files being removed, checked against a reference file-system model (path -> absent / clean(snapshot) / foreign / dirty): a refused export raises OverwriteError and leaves the bytes identical; an accepted export round-trips immediately and whenever the path is read later under the statement's per-format equality; no operation changes any other path; Path.__reduce__ is restored. Fault-injecting runs (separate from fault-free ones) arm one open/write/torn-write/flush/close/read fault (ENOSPC, EIO, EACCES, EMFILE) inside an operation: the faulted operation may fail and dirty its own path only, refused exports stay byte-exact, imports under a read fault raise or return the right data, later un-faulted exports over dirty/longer files round-trip. Thorough enumerates every fault position of short histories (fault_enumeration). Sampling, not proof.",
   note="Trusted: the kernel tmpfs, Pillow/gzip/json/pickle/numpy codecs, the harness' per-format equality. Not judged: the check-then-open window of _export, partial files after a failed overwrite=True export, swallowed write errors (counted only); .pcx excluded (Pillow codec quirk); write handles leaked by third-party code on a failed constructor (gzip) are closed by the simulator at the end of the operation."),
 "C15": dict(section="5.7", level="exploration",
   text="PYTHONHASHSEED is treated as the controlled nondeterminism source. Seeded histories of label operations (with_labels in original relative order, without_labels, get_label, add_label with new and existing names, remove_label legal and illegal, labels, copy, chained selections on results) on labelled graphs with 2-6 overlapping ASCII and non-ASCII labels, plus calls of all 33 index-based labellers (arrays, point clouds, labelled graphs, through a landmark manager; right and wrong sizes; 2D/3D) are executed under PYTHONHASHSEED=0 against a reference label model: returned points are exactly the points under the requested labels in original order, edges are the induced edges, remaining labels are restricted and in original order, every point carries a label after every operation, illegal removal raises, receivers and inputs are never modified; labellers are pure re-indexings (distinct input points), label every output point, commute with a similarity of the input, reject wrong sizes with LabellingError. The same histories are then re-executed in fresh interpreters under further hash seeds (quick: 3, thorough: 15) and the per-history outcome logs (label order, points, masks, sorted edges) must be identical; a difference is minimised with two live interpreters and reported with both hash seeds in the replay file. Sampling, not proof.",
   note="Trusted: CPython's hash randomisation as the only run-to-run variation; with_labels is only called with labels in their original relative order; the two bounding-box labellers are outside the clause; points are pairwise distinct so indices can be recovered by equality."),
 "C11": dict(section="5.6", level="exploration",
   text="A history is one way of cutting a seeded sample stream into an initial batch plus increments. For PCAVectorModel and PointCloud-backed PCAModel (centred/uncentred, first batch below and above d, forgetting factor 1) and for GMRFVectorModel / GMRFModel with incremental=True (edgeless, chain, cycle, random undirected, tree and directed graphs without antiparallel pairs; both edge modes; sparse/dense; both bias values) the incrementally updated model is compared after EVERY increment with the batch model built from the concatenated prefix: sample count, mean, eigenvalues (top batch-rank; surplus must vanish), principal subspaces (projector onto the top-j components at every clear spectral gap), component bookkeeping; GMRF mean and dense view of the precision. The batch PCA oracle is cross-checked against the harness' own SVD. Increment arguments must not be modified and a non-incremental GMRF must refuse. Random compositions plus ALL compositions of n for small n (quick: n<=6, thorough: n<=8) as an exhaustively enumerated sub-space. Sampling, not proof.",
   note="Trusted: the batch constructors as oracle (as the property states), NumPy SVD for the cross-check. No trimming between increments, no exactly-zero data mean, >= 2 features per vertex and enough samples in the first GMRF batch for invertible edge covariances."),
 "C10": dict(section="5.5", level="exploration",
   text="Seeded histories on long-lived PCA models (vector-backed and PointCloud-, Image-, MaskedImage-backed; n on both sides of d so both pca() branches run; centred and uncentred; inplace on/off; optional max_n_components at build): integer and variance-fraction settings of n_active_components in and out of range, trim_components(n) and trim_components(), copies that diverge. After every step every model in the pool is checked against the harness' own SVD spectrum and a two-integer bookkeeping model (kept k, active a): counts and shapes, orthonormal components, positive descending eigenvalues equal to the spectrum and to the sample variance along each component, mean, constant original variance, variance / noise variance / ratios, kept + discarded = original, equality (up to per-component sign) with a freshly built model with max_n_components=k and n_active=a, project(instance(w)) = w, idempotent orthogonal reconstruction, orthogonal project_out residual, exact reconstruction of every training sample when everything is kept, fraction form selects the smallest count reaching the fraction. Sampling, not proof.",
   note="Trusted: numpy.linalg.svd as the independent spectrum; spectra are generated well separated (ratio 0.72); out-of-range settings may raise or clamp (the model follows the SUT when it reports a valid count); data are always passed as copies."),
 "C03": dict(section="5.1", level="exploration",
   text="Seeded programs of compose calls over a pool of long-lived transforms of one dimensionality (the 7 homogeneous classes, the 5 alignment variants, TransformChain, thin-plate splines, piecewise affine, WithDims; 2D and 3D): compose_before/after whose results join the pool and are composed further, the in-place variants (accepted or rejected), self-composition, compose_after_from_vector_inplace, copies, pseudoinverses, decompose+recompose. After every step every pool member is compared on probe points with the harness' own matrix algebra (homogeneous family; also h_matrix) or with sequential application of frozen snapshots of its primitive members (law; operands unchanged by later operations on composites); operand digests before = after every non-in-place and every rejected call; two homogeneous operands must give one invertible Homogeneous that is neither a chain nor an alignment; class honesty predicates (Affine last row, Similarity L^T L = s^2 I, Rotation det>0 and no translation, Translation L = I, scales diagonal) on every result and on every accepted in-place target; decompose() folds back to the same map. Thorough additionally enumerates all ordered class pairs x before/after x in-place/not followed by a further composition. Sampling, not proof.",
   note="Trusted: NumPy matrix algebra; single-transform apply() of non-homogeneous primitives (TPS, PWA, WithDims) is used on deep-copied snapshots as reference (their purity is C02/C09). A member of a chain is never again an in-place target, a chain is never composed in place with itself, and compositions whose model matrix is ill-conditioned (cond > 1e5) or nearly projectively singular on the probe points are skipped."),
 "C09": dict(section="5.4", level="exploration",
   text="Seeded histories of apply calls on a pool of long-lived transforms (cached and uncached piecewise affine, thin-plate splines, both RBFs, the homogeneous family, chains containing a PWA, WithDims, an alignment re-targeted between calls, copies) with caller-owned buffers that are re-used, edited in place (relative 1e-12 .. 1e-3, i.e. below and above any memo tolerance), refilled under the same array object, or passed as equal values in another array; arrays and shapes; every batch size from 1 to beyond n incl. non-dividing ones; mixes of in-domain and out-of-domain points. Every call is compared with a freshly constructed transform of the same parameters applied to a copy of the current values (or both raise); for the PWA classes the failure mask must have exactly one entry per input point and equal a per-point reference for every batch size; inputs are never modified; BooleanImage.constrain_to_pointcloud batched = unbatched. Sampling, not proof.",
   note="Trusted: a fresh transform as oracle (single-call purity of a fresh object is C02's business); the failure mask of a TransformChain that merely contains a PWA is not judged under batching (generic batching; only value equality / both-raise); points are kept a margin away from triangle edges."),
 "C08": dict(section="5.3", level="exploration",
   text="Seeded histories over a pool of long-lived alignment objects (translation, uniform scale, rotation with/without mirroring, similarity with rotation x mirroring, affine, thin-plate splines with both kernels and both singular-value floors incl. near-coincident sources, piecewise affine from PointCloud or TriMesh sources; 2D and 3D): accepted set_target calls (family member + noise, mirrored, arbitrary, exact), rejected targets (wrong n_points / n_dims) in between, copies that diverge, retargeted pseudoinverses, and noise operations (from_vector, apply, in-place composition, as_non_alignment). After every accepted set_target the object is compared with a freshly constructed alignment of the same class and options (map on probe points and source, h_matrix, target, aligned source, alignment error); rejected targets must raise and change nothing; every point set the caller ever passed and every other pool member must be unchanged after every step; GPA transforms must equal AlignmentSimilarity(source_i, gpa.target). Thorough additionally enumerates every class x option vector x 1..3 set_targets. Sampling, not proof.",
   note="Trusted: the alignment constructors themselves are the oracle for a fresh fit (that is what the property states); generators keep point sets in general position; the caller never edits a target after passing it."),
 "C19": dict(section="5.9", level="exploration",
   text="Seeded programs of LazyList operations (map, per-element map, integer/negative/NumPy index, slices, index arrays and iterables, repeat, + with lazy and plain lists, copy, len, iteration, reversed; nesting to depth 6) over instrumented base lists and over video-backed lists produced by the real import_video / FFMpegVideoReader code running against an in-process fake ffmpeg peer, checked step by step against an ordinary-list model of expression trees and an evaluation/IO event log: lengths and values equal, no evaluation, file open, spawn or pipe read during any non-reading operation, a read causes exactly the evaluations its element depends on (inner before outer), receivers never change. Faults are placed inside reads (element callable or mapped function raises, spawn failure, pipe EIO, killed process, truncated stream, landmark-file EIO, reap moment of the finished process as the one schedule choice): a faulted read may fail but never returns a wrong element and later un-faulted reads recover. Sampling, not proof.",
   note="Trusted: the harness' list model and event accounting; the fake ffmpeg is idealised (frame-accurate -ss, short reads only at end of stream), so defects that depend on real ffmpeg seeking are out of reach; LazyList lengths are capped at 40 and nesting depth at 6."),
 "C20": dict(section="5.10", level="exploration",
   text="Seeded histories over the one nondeterminism source behind this property - the global NumPy RNG read by Rotation.axis_and_angle_of_rotation - with the RNG seeded, logged, advanced by foreign draws and re-seeded between queries; every ccw constructor (2D, 3D about x/y/z, degrees/radians, all quadrants, negative, beyond one turn) is compared with the simulator's own Rodrigues matrix, every reported axis/angle must reconstruct the rotation (sign included) whatever the RNG history, quaternions round-trip both ways. Sampling, not proof.",
   note="Covers only the first sentence of C20 (ccw constructors, axis/angle, quaternion round trip): the about-centre helpers, the Scale factory and the texture-coordinate transforms are pure functions with no seam and are NOT checked; trusted: NumPy, the harness' Rodrigues formula. One known finding (2D angle sign) is listed in known_findings.json."),
}

NOT_APPLICABLE = {
 "C01": "pure function of (image, landmarks, parameters): no schedule, clock, I/O, cache or history for a simulator to own (DESIGN.md section 6)",
 "C02": "pure single-call function of (shape, transform); the one stateful transform (CachedPWA) is covered under C09",
 "C04": "pseudoinverse is a pure constructor from the parameters of one transform; no history, fault or interleaving dimension",
 "C05": "as_vector/from_vector are single pure calls on one object; nothing carried between calls",
 "C07": "closed-form fits, pure in (source, target, options); the history aspect (re-targeting) is covered under C08",
 "C12": "GMRF precision assembly is pure in (data, graph, options); the history aspect (increments) is covered under C11",
 "C13": "crops and patches are pure array slicing/resampling of their input",
 "C14": "graph queries are pure functions of the adjacency matrix",
 "C17": "mesh masking and geometry are pure functions of (points, trilist, mask)",
 "C18": "features are pure in (pixels, options); decorators only unwrap and re-wrap",
}

PENDING = {k: 'claimed in DESIGN.md; machine not built yet (listed here only until its check is registered)' for k in ['C03','C06','C08','C09','C10','C11','C15','C16','C19'] if k not in CLAIMED}

def main():
    checks = []
    for pid in sorted(CLAIMED):
        c = CLAIMED[pid]
        checks.append({
            "property_id": pid,
            "quick_cmd": "timeout 900 bin/check %s --tier quick" % pid,
            "thorough_cmd": "timeout 3600 bin/check %s --tier thorough" % pid,
            "evidence_file": "/verif/evidence/%s.json" % pid,
            "replay_cmd_template": "bin/check %s --replay {path}" % pid,
            "engine": "vsim",
            "level_claimed": {"category": c["level"], "text": c["text"], "design_ref": "DESIGN.md section " + c["section"]},
            "level_note": c["note"],
            "technique": TECH,
        })
    na = [{"property_id": k, "reason": v} for k, v in sorted({**NOT_APPLICABLE, **PENDING}.items())]
    m = {
        "version": 1,
        "setup_cmd": "bin/setup",
        "hooks": {
            "guard": "MENPO_VERIF",
            "enable": "no hook exists in /repo: every seam (builtins.open/io.open, subprocess.Popen, numpy.random, PYTHONHASHSEED, LazyList callables) is reachable from outside; bin/check exports MENPO_VERIF=1 but nothing reads it",
            "baseline_off_cmd": "cd /repo && env -u MENPO_VERIF /venv/bin/python -m pytest -ra -q -p no:cacheprovider --timeout=900 --continue-on-collection-errors -n 12",
            "source_commits": [],
            "add_only": True,
        },
        "engines": [{"name": "vsim", "path": "/verif/vsim", "serves_properties": sorted(CLAIMED),
                     "kind_free_text": "hand-written deterministic simulator: seeded history search, reference models, seam fault injection (file system, ffmpeg pipe, RNG, hash seed, lazy callables), ddmin shrinking, JSON replay files"}],
        "checks": checks,
        "not_applicable": na,
        "notes": "See DESIGN.md. Exit codes of bin/check: 0 held (KNOWN-FINDING lines possible), 1 VIOLATION with replay file, 2 HARNESS-ERROR (never a verdict).",
    }
    with open(os.path.join(HERE, "MANIFEST.json"), "w") as f:
        json.dump(m, f, indent=1)
        f.write("\n")

if __name__ == "__main__":
    main()
