#!/usr/bin/env python3
"""Run the checks against a seeded change kept under /verif/seeded/<id>/.

usage: tools/seeded.py <id> [--props C03,C09] [--runs N] [--tier quick]
Applies seeded/<id>/patch.diff to a scratch copy of /repo (under /dev/shm, removed afterwards),
runs demo.py on the unchanged and on the changed copy, then the quick check of the property in
meta.json (or --props) against the changed copy.  Prints one summary line per check.
"""
import argparse, json, os, shutil, subprocess, sys, tempfile

HERE = os.path.dirname(os.path.dirname(os.path.abspath(__file__)))


def sh(cmd, **kw):
    return subprocess.run(cmd, shell=True, capture_output=True, text=True, **kw)


def main():
    ap = argparse.ArgumentParser()
    ap.add_argument("id")
    ap.add_argument("--props")
    ap.add_argument("--runs")
    ap.add_argument("--tier", default="quick")
    ap.add_argument("--suite", action="store_true", help="also run menpo's own test suite on the changed copy")
    a = ap.parse_args()
    d = os.path.join(HERE, "seeded", a.id)
    meta = json.load(open(os.path.join(d, "meta.json"))) if os.path.exists(os.path.join(d, "meta.json")) else {}
    props = a.props.split(",") if a.props else [meta.get("property", a.id.split("-")[0])]
    root = tempfile.mkdtemp(prefix="vsim-seeded-", dir="/dev/shm")
    try:
        sh("git -C /repo archive HEAD menpo | tar -x -C %s" % root)
        demo = os.path.join(d, "demo.py")
        env = dict(os.environ, PYTHONPATH=root, PYTHONDONTWRITEBYTECODE="1")
        r0 = subprocess.run(["/venv/bin/python", demo], capture_output=True, text=True, env=env, cwd=root, timeout=600)
        p = sh("cd %s && patch -p1 --no-backup-if-mismatch < %s" % (root, os.path.join(d, "patch.diff")))
        if p.returncode != 0:
            print("%s PATCH-FAILED %s" % (a.id, (p.stdout + p.stderr)[-300:]))
            return 2
        r1 = subprocess.run(["/venv/bin/python", demo], capture_output=True, text=True, env=env, cwd=root, timeout=600)
        print("%s demo: unchanged exit=%d, changed exit=%d" % (a.id, r0.returncode, r1.returncode))
        if a.suite:
            t = sh("cd %s && /venv/bin/python -m pytest -q -p no:cacheprovider -n 12 menpo 2>&1 | grep -E '^(FAILED|ERROR)' | sort | diff - %s | head -5" % (root, os.path.join(HERE, "seeded", "baseline_failures.txt")))
            print("%s suite diff vs baseline failures: %s" % (a.id, t.stdout.strip() or "none"))
        rc = 0
        for prop in props:
            env2 = dict(os.environ, VERIF_REPO=root, VERIF_OUT=os.path.join(root, "out"), VERIF_NO_SELFTEST="1")
            if a.runs:
                env2["VERIF_RUNS"] = a.runs
            q = subprocess.run([os.path.join(HERE, "bin", "check"), prop, "--tier", a.tier], capture_output=True, text=True, env=env2, timeout=3600)
            sigs = [l.strip().split(" ")[0] for l in q.stdout.splitlines() if l.strip().startswith("signature=")]
            verdict = "CAUGHT" if q.returncode == 1 and "VIOLATION property=%s" % prop in q.stdout else ("MISSED" if q.returncode == 0 else "HARNESS rc=%d" % q.returncode)
            print("%s %s %s %s" % (a.id, prop, verdict, "; ".join(sigs[:4])))
            if verdict.startswith("HARNESS"):
                print((q.stdout + q.stderr)[-600:])
            if verdict != "CAUGHT":
                rc = 1
        return rc
    finally:
        shutil.rmtree(root, ignore_errors=True)


if __name__ == "__main__":
    sys.exit(main())
