#!/usr/bin/env python3
"""Runs menpo's pinned suite (guard off) and checks every BASELINE stable_pass test still passes."""
import json, os, subprocess, sys, tempfile, xml.etree.ElementTree as ET
repo = sys.argv[1] if len(sys.argv) > 1 else "/repo"
b = json.load(open("/root/.vp/BASELINE.json"))
out = tempfile.mktemp(suffix=".xml", dir="/dev/shm")
env = {k: v for k, v in os.environ.items() if k != "MENPO_VERIF"}
subprocess.run("cd %s && /venv/bin/python -m pytest -q -p no:cacheprovider --timeout=900 --continue-on-collection-errors -n 12 --junitxml=%s" % (repo, out),
               shell=True, env=env, stdout=subprocess.DEVNULL, stderr=subprocess.DEVNULL)
passed = set()
for tc in ET.parse(out).getroot().iter("testcase"):
    if not any(c.tag in ("failure", "error", "skipped") for c in tc):
        passed.add("%s::%s" % (tc.get("classname"), tc.get("name")))
os.unlink(out)
missing = [t for t in b["stable_pass"] if t not in passed]
print("stable_pass: %d, passing now: %d, missing: %d, newly passing beyond baseline: %d" % (
    len(b["stable_pass"]), len(passed & set(b["stable_pass"])), len(missing), len(passed - set(b["stable_pass"]))))
for m in missing[:20]:
    print("  MISSING", m)
sys.exit(1 if missing else 0)
