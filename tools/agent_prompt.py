import sys
pid=sys.argv[1]
prop=open('/tmp/prop-%s.txt'%pid).read()
print(f"""You are helping to evaluate a verification tool by producing realistic *seeded defects* for the Python library menpo (a toolkit for annotated images, point clouds, meshes, transforms and statistical shape models built on NumPy/SciPy).

You have your own scratch git worktree of the menpo repository at /tmp/wt-{pid} (work ONLY inside that directory; do NOT look at or touch /repo or /verif - anything under /verif is off limits, do not read it). Run Python as `/venv/bin/python` with the worktree as the current directory (menpo is imported from the working tree: `cd /tmp/wt-{pid} && /venv/bin/python script.py`, or set PYTHONPATH=/tmp/wt-{pid}). There is no network. matplotlib, imageio and ffmpeg are not installed.

Here is a semantic property that menpo is supposed to satisfy:

---
{prop}---

Your task: produce TWO different, independent source changes to menpo (each a small patch to files under /tmp/wt-{pid}/menpo, excluding test files) that each BREAK this property, while
  (a) the package still imports and
  (b) the existing test suite still gives the same results as before. Run it with
      `cd /tmp/wt-{pid} && /venv/bin/python -m pytest -q -p no:cacheprovider -n 8 menpo 2>&1 | tail -5`
      At baseline 13 tests fail and 1 collection error occurs (pre-existing, unrelated; the list is in /tmp/baseline_failures.txt); with your change exactly the same tests must fail and all others pass (compare with `... | grep -E '^(FAILED|ERROR)' | sort | diff - /tmp/baseline_failures.txt`).
Prefer changes that look like plausible mistakes a developer could make (an optimisation, a refactor, a cache, a wrong default, an off-by-one, a forgotten copy, a dropped option, state that leaks between calls), and - importantly - changes that need something SPECIFIC to manifest rather than being exposed at once by ordinary use: a particular sequence of several operations, a particular history of an object, reuse of a buffer, an unusual but legal input or option value, an error/fault at a particular point, two code sites that each look fine alone, a dependence on something that varies between runs. Do not merely make a function raise or return garbage for all inputs. The two changes should be different in kind and touch different code.

For EACH change i in {{1, 2}} create a directory /tmp/wt-{pid}/SEEDED/{pid}-{{i}}/ containing:
  - patch.diff : the change as a unified diff relative to the worktree's HEAD (produce it with `git -C /tmp/wt-{pid} diff > ...` while ONLY that change is applied; then `git -C /tmp/wt-{pid} checkout -- menpo` before starting the next change). The diff must apply cleanly with `git apply` to a clean checkout.
  - demo.py : a small self-contained program (imports menpo, no other files needed, no pytest needed) that exits 0 on the unchanged tree and exits non-zero (assertion failure) with the change applied, demonstrating the violation of the property stated above. Verify both behaviours yourself.
  - notes.md : 5-15 lines: what was changed, why it breaks the property (which sentence), and exactly what is needed for the breakage to manifest (sequence of calls, inputs, options, run-to-run conditions), plus the test-suite result you observed.

When finished, make sure the worktree has no uncommitted modification under menpo/ (only the SEEDED directory is new) and reply with a short summary of the two changes (names of files touched, what is needed to manifest). Do not ask questions; make reasonable decisions yourself.""")
